"""C14 — cached attractor data is never stale.
E-CAB history mode: attractor queries on (mostly unexpanded) nodes interleaved with every operation that can
give a node successors; after every call, whatever each node would report with compute=False is decided
against the definition *relative to the node's current successors* for the whole class."""
from __future__ import annotations
import itertools
from engine import specs, ops
from engine.symnet import in_space
from checks import hist, histcheck, common

PROP = "C14"
QUERIES = ["seeds", "cands", "sets"]
CHANGERS = ["succ", "bfs", "dfs", "minp", "min", "aseeds", "target", "block", "scc", "skip", "skiprem", "reclaim", "pickle"]
FUNCTIONS = ["SuccessionDiagram._expand_one_node (cache reset)", "SuccessionDiagram.skip_to_minimal", "SuccessionDiagram.skip_remaining",
             "expand_minimal_spaces.make_skip_node", "expand_source_blocks (source shortcut, clean blocks)",
             "expand_source_SCCs / attach_scc_subdiagram", "SuccessionDiagram.node_attractor_candidates/seeds",
             "SuccessionDiagram.reclaim_node_data", "SuccessionDiagram.__setstate__"]


def execute(rules, skeleton, H, names, params):
    sd, trace = hist.run_history(rules, skeleton, H, names, attractors=True)
    return {"trace": trace}


def node_cache_spec(B, dump, nid, prev=None):
    """the cached candidates / seeds of one node against the definition for its *current* successors"""
    nodes = specs.node_by_id(dump)
    nd = nodes[nid]
    S = nd["space"]
    seeds = nd["attractor_seeds"]
    cands = nd["attractor_candidates"]
    kids = [nodes[e["c"]]["space"] for e in specs.out_edges(dump)[nid]]
    parts = []
    pre = f"node {nid} ({'skip' if nd['skipped'] else 'expanded' if nd['expanded'] else 'stub'}): "
    states = [x for x in B.states if in_space(x, S)]
    sets = nd.get("sets_content")
    if sets is not None:
        # cached attractor sets: one per cached seed, in order, each the attractor of its seed; sets without seeds
        # must describe attractors of the node that are outside its successors
        if seeds is not None:
            parts.append((pre + f"cached sets correspond one-to-one to the cached seeds ({len(sets)} sets, {len(seeds)} seeds)", B.const(len(sets) == len(seeds))))
        for i, st in enumerate(sets):
            st = [tuple(x) for x in st]
            parts.append((pre + f"cached set {i} is non-empty, inside the node and outside its successors",
                          B.const(len(st) > 0 and all(in_space(x, S) for x in st) and not any(in_space(x, k) for x in st for k in kids))))
            if st:
                s0 = tuple(seeds[i]) if seeds is not None and i < len(seeds) else st[0]
                for y in B.states:
                    parts.append((pre + f"cached set {i} contains {y} iff {y} is in the attractor of {s0}",
                                  B.Iff(B.And(B.attr(s0), B.reach(s0, y)), B.const(y in st))))
    if cands is None and seeds is None:
        return parts
    reported_cands = cands if cands is not None else seeds
    states = [x for x in B.states if in_space(x, S)]
    outside = [x for x in states if not any(in_space(x, k) for k in kids)]
    if nd["skipped"]:
        for c in (reported_cands or []) + (seeds or []):
            c = tuple(c)
            parts.append((pre + f"cached state {c} is a total state of the node", B.const(all(v is not None for v in c) and in_space(c, S))))
            parts.append((pre + f"cached state {c} is not inside a successor (data computed before skipping was not discarded)",
                          B.const(not any(in_space(c, k) for k in kids))))
        if seeds is not None:
            ss = [tuple(s) for s in seeds]
            for s in ss:
                parts.append((pre + f"seed {s} lies in an attractor", B.attr(s)))
            for i, s in enumerate(ss):
                for t in ss[i + 1:]:
                    parts.append((pre + f"seeds {s},{t} are in different attractors", B.Not(B.And(B.reach(s, t), B.reach(t, s)))))
        return parts
    # ordinary node (expanded or stub): exact
    cs = []
    for c in reported_cands:
        c = tuple(c)
        ok = all(v is not None for v in c) and in_space(c, S)
        parts.append((pre + f"cached candidate {c} is a total state of the node", B.const(ok)))
        if ok:
            cs.append(c)
    for x in outside:
        parts.append((pre + f"attractor of {x} (outside all successors) has a cached candidate",
                      B.Implies(B.attr(x), B.Or([B.And(B.reach(x, c), B.reach(c, x)) for c in cs]))))
    if seeds is not None:
        ss = [tuple(s) for s in seeds]
        for s in ss:
            parts.append((pre + f"cached seed {s} is a total state in the node, outside its successors",
                          B.const(all(v is not None for v in s) and in_space(s, S) and not any(in_space(s, k) for k in kids))))
            parts.append((pre + f"cached seed {s} lies in an attractor", B.attr(s)))
        for x in outside:
            hits = [B.And(B.reach(x, s), B.reach(s, x)) for s in ss]
            one = B.Or([B.And([h] + [B.Not(h2) for j, h2 in enumerate(hits) if j != i]) for i, h in enumerate(hits)])
            parts.append((pre + f"attractor of {x} (outside all successors) has exactly one cached seed", B.Implies(B.attr(x), one)))
    return parts


def assertion(B, rules, skeleton, out, params):
    parts = []
    for k, ent in enumerate(out["trace"]):
        if ent["rec"].get("skipped"):
            continue
        exc = ent["rec"]["exc"]
        legal = exc is None or (exc == "KeyError" and ent["kind"] in ("qcands", "qseeds"))
        parts.append((f"op {k} {ent['kind']}: no unexpected exception ({exc}: {ent['rec'].get('msg')})", B.const(legal)))
        for n in ent["dump"]["nodes"]:
            parts += [(f"after op {k} {ent['kind']}: " + l, f) for l, f in node_cache_spec(B, ent["dump"], n["id"])]
    return parts


def info(out):
    return {"ops": [(e["kind"], e["op"], e["rec"]["exc"]) for e in out["trace"]]}


def signature(B, rec, out, failing):
    f0 = failing[0]
    if "data computed before skipping was not discarded" in f0:
        return {"site": "skip-keeps-cache"}
    return {"site": "other"}


def run_task(task):
    import checks.C14 as me
    return histcheck.run_task(task, me)


def replay(rec):
    import checks.C14 as me
    return histcheck.replay(rec, me)


def tasks(tier, seed, selftest=False):
    S = []
    q = tier == "quick"
    if selftest:
        return histcheck.mk_tasks(PROP, [dict(family="U2", skeleton=("seeds",), timebox=60)], seed, True)
    for qy in QUERIES:
        for ch in CHANGERS:
            S.append(dict(family="U2", skeleton=(qy, ch), timebox=6 if q else 900))
            S.append(dict(family="U2", skeleton=("succ", qy, ch), timebox=6 if q else 900))
            if not q:
                S.append(dict(family="D3", skeleton=(qy, ch), timebox=200))
                S.append(dict(family="D3", skeleton=("succ", qy, ch), timebox=200))
                S.append(dict(family="U2", skeleton=(qy, ch, "everyseeds"), timebox=300))
    # reclamation / serialisation between the query and the operation that gives the node successors
    for qy in QUERIES:
        for mid in ("reclaim", "pickle"):
            for ch in ("succ", "bfs", "skip", "skiprem", "min", "aseeds", "scc", "block"):
                S.append(dict(family="U2", skeleton=(qy, mid, ch), timebox=6 if q else 600))
                if not q:
                    S.append(dict(family="D3", skeleton=(qy, mid, ch), timebox=120))
    # several source SCCs with non-trivial sub-diagrams: the attachment path of expand_scc / block decomposition
    for fam in ("B22", "P:SW2+SW2"):
        for sk in (("seeds", "reclaim", "scc"), ("seeds", "scc"), ("seeds", "reclaim", "block"), ("succ", "seeds", "reclaim", "scc")):
            S.append(dict(family=fam, skeleton=sk, timebox=12 if q else 600))
    if q:
        for ch in ("skip", "skiprem", "min", "block", "scc", "succ"):
            S.append(dict(family="D3", skeleton=("seeds", ch), timebox=8))
        for ch in ("block", "scc"):
            S.append(dict(family="B21", skeleton=("seeds", ch), timebox=8))
            # source variables: the fast-forward / root source expansion paths
            S.append(dict(family="S1C2", skeleton=("sets", ch), timebox=10))
            S.append(dict(family="S1C2", skeleton=("seeds", ch), timebox=10))
    else:
        for ch in ("block", "scc", "min"):
            for fam in ("B22", "CH4", "S2C2"):
                S.append(dict(family=fam, skeleton=("seeds", ch), timebox=300, cube_k=3, nbits=20))
    # a stub that already holds attractor data and is then reached again by attaching a source-SCC sub-diagram
    for qy in ("seeds", "cands"):
        for fam in ("P:NEST2+SW2", "P:U2+SW2"):
            S.append(dict(family=fam, skeleton=("succ", qy, "scc"), timebox=(30 if fam.startswith("P:NEST2") else 8) if q else 600))
    # two independent switches: expand_attractor_seeds leaves stubs behind whose attractors are all covered by expanded
    # siblings - whatever it caches on them must still be a correct answer for the stub
    for sk in (("aseeds",), ("aseeds", "cands"), ("succ", "aseeds", "seeds"), ("aseeds", "everyseeds")):
        S.append(dict(family="P:SW2+SW2", skeleton=sk, timebox=10 if q else 600))
    return histcheck.mk_tasks(PROP, S, seed)


def main(tier, seed, t0, selftest=False):
    results = common.run_tasks(tasks(tier, seed, selftest))
    return common.finish(PROP, tier, seed, "model_checking", results, t0, selftest=selftest, functions=FUNCTIONS,
                         bounds={"history": "[succ] + query (seeds|cands on a symbolic node) + [reclaim|pickle] + one of " + ",".join(CHANGERS) + " (all parameters symbolic); cache of every node checked after every call",
                                 "families": "U2 time-boxed per skeleton; D3/B21 samples (quick); D3, B22, CH4, S2C2 (thorough)",
                                 "sets": "cached attractor sets are enumerated in the dump: one per seed, in order, each equal to the attractor of its seed (their contents are observations of the attractor region, so the comparison is class-valid)"},
                         assumptions=["contract stubs of DESIGN.md §8 validated on every representative",
                                      "skip nodes: sound, duplicate-free, and no cached state inside a successor (what a recomputation can never produce)"])
