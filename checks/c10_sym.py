"""C10 on symbolic networks: the real network_to_petrinet and percolate_network (both settings of remove_constants)
run on the representative of every path class of a symbolic network and a symbolic subspace; the emitted Petri net
and the percolated network are read back (transition pre-sets; update functions evaluated on every state) and are
observations against the symbolic truth table: enabledness of up/down transitions == f&!x / !f&x on every state,
and, when S is a trap space (the property's scope for percolate_network): remaining variables == free variables of
PERC(S) (with remove_constants), every remaining function == the original on every state of the percolated space.  A disagreement is a violation at that representative (replayed)."""
from __future__ import annotations
import itertools
import z3
from engine import specs, symnet
from engine.symnet import in_space, refines
from engine.cab import CTX, SymInt, explore
from engine.ref import ConcreteNet


def execute(rules, S, names, free=()):
    import biodivine_aeon as ba
    from biobalm.petri_net_translation import network_to_petrinet
    from biobalm.space_utils import percolate_network, percolate_space
    from biobalm.interaction_graph_utils import cleanup_network
    bn = cleanup_network(ba.BooleanNetwork.from_bnet(rules))
    if free:
        # the variables in `free` (identity dynamics) are presented as FREE INPUTS: no update function, no regulators
        vs = list(bn.variable_names())
        regs = [r for r in bn.regulations() if bn.get_variable_name(r["target"]) not in free]
        fns = [None if nm in free else str(bn.get_update_function(nm)) for nm in vs]
        nb = ba.BooleanNetwork(vs, None, None, None)
        for r in regs:
            nb.add_regulation({"source": bn.get_variable_name(r["source"]), "target": bn.get_variable_name(r["target"]),
                               "essential": r.get("essential", True), "sign": r.get("sign")})
        for nm, f in zip(vs, fns):
            if f is not None:
                nb.set_update_function(nm, f)
        # NOT cleanup_network: a SuccessionDiagram gives free inputs the identity function; network_to_petrinet and
        # percolate_network are public functions that must also take the network as AEON loads it
        bn = nb.infer_valid_graph()
        assert all(bn.get_update_function(nm) is None for nm in free)
    g = ba.AsynchronousGraph(bn)
    try:
        pn = network_to_petrinet(bn)
    except Exception as e:      # the real function raised on a valid network: part of the verdict, not a harness error
        return {"S": S, "exc": f"network_to_petrinet raised {type(e).__name__}: {str(e)[:100]}"}
    n = len(names)
    states = list(itertools.product((0, 1), repeat=n))
    out = {"S": S}
    # Petri net: which (variable, direction) has an enabled transition in which state
    en = {}
    for t, data in pn.nodes(data=True):
        if data.get("kind") != "transition":
            continue
        pre = {p[3:]: (1 if p.startswith("b1_") else 0) for p in pn.predecessors(t)}
        v = names.index(data["change"])
        up = data["direction"] == "up"
        for x in states:
            if all(x[names.index(k)] == b for k, b in pre.items()) and x[v] == (0 if up else 1):
                en[(v, up, x)] = True
    out["enabled"] = sorted(map(str, en))
    out["_en"] = en
    sd = {nm: s for nm, s in zip(names, S) if s is not None}
    perc = percolate_space(g, dict(sd))
    out["perc"] = tuple((int(perc[nm]) if nm in perc else None) for nm in names)
    for rc in (True, False):
        try:
            r = percolate_network(bn, dict(sd), g, remove_constants=rc)
        except Exception as e:
            return {"S": S, "exc": f"percolate_network raised {type(e).__name__}: {str(e)[:100]}"}
        gr = ba.AsynchronousGraph(r)
        rnames = list(r.variable_names())
        fns = {}
        for nm in rnames:
            tab = {}
            if r.get_update_function(nm) is None:
                # still a free input: it never changes (the dynamics of the identity); recorded so that the assertion
                # can demand that an input fixed by the space is no longer free
                out.setdefault("still_free_" + ("rc" if rc else "keep"), []).append(nm)
                for vals in itertools.product((0, 1), repeat=len(rnames)):
                    tab[vals] = bool(vals[rnames.index(nm)])
            else:
                f = gr.mk_update_function(nm)
                for vals in itertools.product((0, 1), repeat=len(rnames)):
                    tab[vals] = bool(f.r_restrict(dict(zip(rnames, vals))).is_true())
            fns[nm] = tab
        out["rc" if rc else "keep"] = {"names": rnames, "fns": fns}
    return out


def assertion(B, out):
    parts = []
    if out.get("exc"):
        return [("the real code raised: " + out["exc"], B.const(False))]
    n = B.n
    names = B.names
    en = out["_en"]
    for v in range(n):
        for x in B.states:
            for up in (True, False):
                want = B.And(B.fval(v, x) if up else B.Not(B.fval(v, x)), B.const(x[v] == (0 if up else 1)))
                parts.append((f"Petri net: variable {names[v]} has an enabled {'up' if up else 'down'} transition in {x} iff its function disagrees that way",
                              B.Iff(want, B.const((v, up, x) in en))))
    S, R = out["S"], out["perc"]
    parts.append(("percolated space used by percolate_network is PERC(S)", B.perc_eq(S, R)))
    net_parts = parts
    parts = []      # the statements about the percolated network are made for trap spaces (C10: "to a trap space")
    free = [v for v in range(n) if R[v] is None]
    rc = out["rc"]
    parts.append(("remove_constants=True: exactly the variables left free by percolation remain", B.const(sorted(rc["names"]) == sorted(names[v] for v in free))))
    keep = out["keep"]
    parts.append(("remove_constants=False: all variables remain", B.const(sorted(keep["names"]) == sorted(names))))
    for label in ("rc", "keep"):
        for nm in out.get("still_free_" + label, []):
            parts.append((f"{label}: input {nm} is a free parameter of the percolated network only if the space leaves it free", B.const(R[names.index(nm)] is None)))
    for label, res in (("rc", rc), ("keep", keep)):
        rn = res["names"]
        for nm, tab in res["fns"].items():
            v = names.index(nm)
            if R[v] is not None:
                # a variable fixed by percolation that is kept: on a trap space its function is that constant
                # "an encoding over exactly the variables left free": a kept fixed variable is a CONSTANT of the result
                # (on every state of the result network, not only inside the space)
                parts.append((f"{label}: kept fixed variable {nm} is the constant {R[v]} of the percolated network",
                              B.const(all(bool(val) == bool(R[v]) for val in tab.values()))))
                continue
            # ... and a free variable's function reads free variables only
            fixed_pos = [i for i, k in enumerate(rn) if R[names.index(k)] is not None]
            if fixed_pos:
                proj = {}
                dep = False
                for vals, val in tab.items():
                    key = tuple(b for i, b in enumerate(vals) if i not in fixed_pos)
                    if proj.setdefault(key, val) != val:
                        dep = True
                parts.append((f"{label}: percolated function of free variable {nm} does not read a fixed variable", B.const(not dep)))
            for vals, val in tab.items():
                x = list(0 if r is None else r for r in R)
                ok = True
                for k, b in zip(rn, vals):
                    i = names.index(k)
                    if R[i] is not None and R[i] != b:
                        ok = False
                    x[i] = b
                if not ok:
                    continue
                parts.append((f"{label}: percolated function of {nm} agrees with the original in state {tuple(x)} of the space",
                              B.Iff(B.fval(v, tuple(x)), B.const(val))))
    is_trap = B.trap(S)
    return net_parts + [(lbl + " [S is a trap space]", B.Implies(is_trap, f)) for lbl, f in parts]


def run_task(task):
    net = symnet.family(task["family"])
    ts = [z3.Int(f"s{i}") for i in range(net.n)]
    cs = []
    for t in ts:
        cs += [t >= -1, t <= 1]
    selftest = task["params"].get("selftest")
    fis = []
    if task["params"].get("free_inputs"):
        # fi_v = 1: variable v is presented to the real code as a free input (only allowed when its dynamics are the identity)
        fis = [z3.Int(f"fi{i}") for i in range(net.n)]
        for i, t in enumerate(fis):
            cs += [t >= 0, t <= 1, z3.Implies(t == 1, z3.And([net.fval(i, x) == bool(x[i]) for x in net.states]))]
        cs.append(z3.Sum(fis) >= 1)

    def harness(ctx, rules):
        S = tuple((None if (v := SymInt(t).concrete()) < 0 else v) for t in ts)
        free = tuple(net.names[i] for i, t in enumerate(fis) if SymInt(t).concrete() == 1)
        out = execute(rules, S, net.names, free)
        parts = assertion(net, out)
        if selftest:
            parts.append(("selftest", net.FALSE))
        # everything the real code produced is read back completely: pin what was read (the class is the set of
        # networks that agree with the representative on the percolated space and on the Petri net's enabledness)
        for lbl, f in parts:
            if not (z3.is_true(f) or z3.is_false(f)):
                ctx.obs(f)
        return specs.conj(net, parts), {"S": S, "perc": out.get("perc")}
    cube = [net.bits[i] if v else z3.Not(net.bits[i]) for i, v in task.get("cube", [])]
    res = explore(net, harness, extra_vars=ts + fis, extra_constraints=cs, cube=cube, timebox=task["timebox"], seed=task.get("seed", 0), label=task["label"],
                  start_at=task.get("start_at"), max_classes=task.get("max_classes"))
    res["violations"] = res["violations"][:4]
    return res


def replay(rec):
    B = ConcreteNet.from_bnet(rec["rules"])
    S = tuple((None if rec["hist"].get(f"s{i}", -1) < 0 else int(rec["hist"][f"s{i}"])) for i in range(B.n))
    free = tuple(B.names[i] for i in range(B.n) if int(rec["hist"].get(f"fi{i}", 0)) == 1)
    out = execute(rec["rules"], S, B.names, free)
    parts = assertion(B, out)
    failing = specs.failing_parts(B, parts)
    return {"reproduces": bool(failing), "failing": failing[:5], "signature": None}
