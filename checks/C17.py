"""C17 — results do not depend on how the network is written down.
E-CAB relational: the representative of every path class is re-written (variables renamed and re-ordered,
functions rendered as DNF / CNF / nested if-then-else, variables stored negated, aeon and sbml text) and the
real code is run on every presentation; each presentation is interpreted over a *view* of the same symbolic
truth table (permuted / negated bits), so both runs are covered by the class.  Diagrams are compared after
mapping spaces back; attractors are compared through REACH over the symbolic table.
Name sanitisation is checked on symbolic names by a separate solver query (see `sanitize_*`)."""
from __future__ import annotations
import itertools
import z3
from engine import specs, ops, symnet
from engine.symnet import view_transformed, map_back
from engine.cab import CTX, explore
from engine.ref import ConcreteNet, parse_bnet
from checks import common

PROP = "C17"
FUNCTIONS = ["SuccessionDiagram.from_rules (bnet/aeon/sbml)", "petri_net_translation.network_to_petrinet", "space_utils.space_unique_key",
             "SuccessionDiagram._expand_one_node (sorted children)", "petri_net_translation.extract_variable_names/extract_source_variables",
             "petri_net_translation.sanitize_network_names"]
NEWNAMES = ["zeta", "Y_2", "m", "Kappa9"]
# names that contain the Petri-net place prefixes themselves
PREFIXNAMES = ["tgfb1_r", "b0_b0_q", "xb0_1", "b1_"]


def variants(n):
    """(label, perm, flips, names, style, format)"""
    ident = list(range(n))
    base = list("abcdefgh"[:n])
    V = [("cnf", ident, [0] * n, base, "cnf", "bnet"),
         ("ite", ident, [0] * n, base, "ite", "bnet"),
         ("aeon", ident, [0] * n, base, "dnf", "aeon"),
         ("sbml", ident, [0] * n, base, "dnf", "sbml"),
         ("rename+rotate", ident[1:] + ident[:1], [0] * n, NEWNAMES[:n], "dnf", "bnet"),
         ("flip0", ident, [1] + [0] * (n - 1), base, "dnf", "bnet"),
         ("reverse+flipall", ident[::-1], [1] * n, [nm + "_x" for nm in base], "cnf", "bnet"),
         ("order-only", ident[::-1], [0] * n, base[::-1], "dnf", "bnet"),
         ("rename-prefix", ident, [0] * n, PREFIXNAMES[:n], "dnf", "bnet"),
         # variables whose dynamics are the identity written as FREE INPUTS (no rule at all; AEON creates an implicit
         # parameter without regulators, which biobalm accepts as an input that never changes)
         ("free-inputs", ident, [0] * n, base, "dnf", "bnet-free"),
         # every function written over its essential variables only, duplicated idempotently: (f) & (f) / !!(f)
         ("idem", ident, [0] * n, base, "idem", "bnet"),
         ("notnot", ident, [0] * n, base, "notnot", "bnet"),
         # the network handed over as an OBJECT built through the AEON API, its variables declared in reversed / rotated
         # order (the text loaders always sort the names, so only an object can have another declaration order)
         ("object-reversed", ident, [0] * n, base, "dnf", "object:reversed"),
         ("object-rotated", ident, [0] * n, base, "cnf", "object:rotated")]
    return V


def render(tables, names, style):
    n = len(names)
    states = list(itertools.product((0, 1), repeat=n))
    lines = []
    for v in range(n):
        tt = tables[v]
        ones = [x for i, x in enumerate(states) if tt[i]]
        zeros = [x for i, x in enumerate(states) if not tt[i]]
        if not ones:
            f = "false"
        elif not zeros:
            f = "true"
        elif style in ("idem", "notnot"):
            ess = [j for j in range(n) if any(tt[i] != tt[states.index(x[:j] + (1 - x[j],) + x[j + 1:])] for i, x in enumerate(states))]
            rows = sorted({tuple(x[j] for j in ess) for x in ones})
            d = " | ".join("(" + " & ".join((names[j] if b else "!" + names[j]) for j, b in zip(ess, r)) + ")" for r in rows)
            f = f"({d}) & ({d})" if style == "idem" else f"!!({d})"
        elif style == "dnf":
            f = " | ".join("(" + " & ".join((names[j] if x[j] else "!" + names[j]) for j in range(n)) + ")" for x in ones)
        elif style == "cnf":
            f = " & ".join("(" + " | ".join(("!" + names[j] if x[j] else names[j]) for j in range(n)) + ")" for x in zeros)
        else:   # nested if-then-else on the variables in order
            def ite(prefix):
                k = len(prefix)
                if k == n:
                    return "true" if tt[states.index(tuple(prefix))] else "false"
                hi, lo = ite(prefix + [1]), ite(prefix + [0])
                if hi == lo:
                    return hi
                return f"(({names[k]} & {hi}) | (!{names[k]} & {lo}))"
            f = ite([])
        lines.append(f"{names[v]}, {f}")
    return "\n".join(lines) + "\n"


def transform_tables(tables, perm, flips):
    n = len(tables)
    states = list(itertools.product((0, 1), repeat=n))
    idx = {x: i for i, x in enumerate(states)}
    out = []
    for j in range(n):
        row = []
        for y in states:
            x = [0] * n
            for jj in range(n):
                x[perm[jj]] = y[jj] ^ flips[jj]
            row.append(tables[perm[j]][idx[tuple(x)]] ^ flips[j])
        out.append(row)
    return out


def run_sd(text, fmt, names):
    from biobalm import SuccessionDiagram
    if fmt.startswith("object:"):
        from checks import hist
        sd = SuccessionDiagram(hist.reordered_network(text, fmt.split(":")[1]))
    else:
        sd = SuccessionDiagram.from_rules(text, format=fmt)
    r = ops.guarded(sd.expand_bfs)
    seeds = ops.guarded(lambda: {int(i): [ops._t(names, s) for s in v] for i, v in sd.expanded_attractor_seeds().items()})
    return {"exc": r["exc"] or seeds["exc"], "msg": r.get("msg") or seeds.get("msg"), "dump": ops.dump_sd(sd, names, attractors=False), "seeds": seeds["ret"]}


def drop_identity_rules(text, tables, names, symbolic):
    """bnet text without the rules of identity variables (kept if nothing else mentions the variable)"""
    import re
    n = len(names)
    states = list(itertools.product((0, 1), repeat=n))
    ident = []
    for v in range(n):
        is_id = all(bool(tables[v][i]) == bool(x[v]) for i, x in enumerate(states))
        if symbolic:
            from engine.cab import CTX
            from engine.symnet import fAnd
            net = CTX.net
            # the harness branches on "is the identity": an observation
            is_id = CTX.obs(fAnd([net.fval(v, x) if x[v] else z3.Not(net.fval(v, x)) for x in net.states]))
        if is_id:
            ident.append(names[v])
    lines = [ln for ln in text.splitlines() if ln.strip()]
    kept_expr = " ".join(l.split(",", 1)[1] for l in lines if l.split(",", 1)[0].strip() not in ident)
    out = []
    for ln in lines:
        nm = ln.split(",", 1)[0].strip()
        if nm in ident and re.search(r"(?<![A-Za-z0-9_])" + re.escape(nm) + r"(?![A-Za-z0-9_])", kept_expr):
            continue
        out.append(ln)
    return "\n".join(out) + "\n"


def to_format(text, fmt):
    import biodivine_aeon as ba
    from engine import oracles
    if fmt in ("bnet", "bnet-free") or fmt.startswith("object:"):
        return text
    BN = oracles.REAL.get("BooleanNetwork", ba.BooleanNetwork)
    bn = BN.from_bnet(text)
    if fmt == "aeon":
        t = bn.to_aeon()
        oracles.AEON_TEXT[t] = ((None,) * bn.variable_count(), None)
        return t
    t = bn.to_sbml()
    oracles.AEON_TEXT["sbml:" + t] = ((None,) * bn.variable_count(), None)
    return t


def execute(rules, names, which, views, symbolic):
    from engine import oracles
    _, tables = parse_bnet(rules)
    out = {"base": run_sd(rules, "bnet", names), "variants": {}}
    for (label, perm, flips, vnames, style, fmt) in variants(len(names)):
        if which and label not in which:
            continue
        t2 = transform_tables(tables, perm, flips)
        text = to_format(render(t2, vnames, style), fmt)
        if fmt == "bnet-free":
            text = drop_identity_rules(text, t2, vnames, symbolic)
            fmt = "bnet"
        if symbolic:
            with oracles.use_net(views[label]):
                out["variants"][label] = run_sd(text, fmt, vnames)
        else:
            out["variants"][label] = run_sd(text, fmt, vnames)
        out["variants"][label]["perm"], out["variants"][label]["flips"] = perm, flips
    return out


def canon(dump, perm=None, flips=None):
    mb = (lambda S: S) if perm is None else (lambda S: map_back(S, perm, flips))
    sp = {n["id"]: mb(tuple(n["space"])) for n in dump["nodes"]}
    nodes = sorted(str(s) for s in sp.values())
    edges = sorted((str(sp[e["p"]]), str(sp[e["c"]]), sorted(str(mb(tuple(m))) for m in e["all_motifs"])) for e in dump["edges"])
    oe = {n["id"]: 0 for n in dump["nodes"]}
    for e in dump["edges"]:
        oe[e["p"]] += 1
    leaves = sorted(str(sp[n["id"]]) for n in dump["nodes"] if n["expanded"] and oe[n["id"]] == 0)
    return nodes, edges, leaves


def assertion(B, out):
    parts = []
    base = out["base"]
    parts.append((f"base presentation: no exception ({base['exc']}: {base.get('msg')})", B.const(base["exc"] is None)))
    if base["exc"]:
        return parts
    cb = canon(base["dump"])
    sb = [tuple(s) for v in base["seeds"].values() for s in v]
    for label, var in out["variants"].items():
        parts.append((f"{label}: no exception ({var['exc']}: {var.get('msg')})", B.const(var["exc"] is None)))
        if var["exc"]:
            continue
        cv = canon(var["dump"], var["perm"], var["flips"])
        parts.append((f"{label}: same node spaces (after renaming/flipping back)", B.const(cv[0] == cb[0])))
        parts.append((f"{label}: same edges and stable-motif lists", B.const(cv[1] == cb[1])))
        parts.append((f"{label}: same minimal trap spaces", B.const(cv[2] == cb[2])))
        sv = [map_back(tuple(s), var["perm"], var["flips"]) for v in var["seeds"].values() for s in v]
        parts.append((f"{label}: same number of attractors", B.const(len(sv) == len(sb))))
        for s in sv:
            hits = [B.And(B.reach(s, t), B.reach(t, s)) for t in sb]
            one = B.Or([B.And([h] + [B.Not(h2) for j, h2 in enumerate(hits) if j != i]) for i, h in enumerate(hits)])
            parts.append((f"{label}: attractor of {s} is one of the base presentation's attractors", one))
    return parts


# ----------------------------------------------------------------------------- name sanitisation (solver over symbolic names)
# letter, upper, digit, underscore, characters that need sanitising - including non-ASCII letters, which Python's
# Unicode-aware \w would accept but clingo does not
ALPH = ["a", "B", "7", "_", "{", "-", "\u03b2", "\u00e9"]


def sanitize_check(k, L, timeout_s=120):
    """The real sanitize_network_names is run by a concolic loop over k symbolic names of length 1..L over ALPH:
    z3 picks names (pairwise distinct, as AEON requires), the real function runs on a real AEON network with
    those names, and the observation 'which characters are solver-safe, which sanitised names collide'
    generalises the run to every name tuple with the same pattern.  Returns (classes, failures, exhausted)."""
    import re
    import time
    import biodivine_aeon as ba
    from biobalm.petri_net_translation import sanitize_network_names
    t0 = time.time()
    C = [[z3.Int(f"c_{i}_{j}") for j in range(L)] for i in range(k)]
    LEN = [z3.Int(f"len_{i}") for i in range(k)]
    s = z3.Solver()
    for i in range(k):
        s.add(LEN[i] >= 1, LEN[i] <= L)
        for j in range(L):
            s.add(C[i][j] >= 0, C[i][j] < len(ALPH))
            s.add(z3.Implies(j >= LEN[i], C[i][j] == 0))
    def eqn(i, i2):
        return z3.And([LEN[i] == LEN[i2]] + [C[i][j] == C[i2][j] for j in range(L)])
    for i in range(k):
        for i2 in range(i + 1, k):
            s.add(z3.Not(eqn(i, i2)))
    valid = lambda e: z3.Or([e == ALPH.index(ch) for ch in ALPH if re.match("^[a-zA-Z0-9_]$", ch)])
    classes, fails = 0, []
    while time.time() - t0 < timeout_s:
        if s.check() != z3.sat:
            return classes, fails, True
        m = s.model()
        lens = [m.eval(LEN[i], model_completion=True).as_long() for i in range(k)]
        names = ["".join(ALPH[m.eval(C[i][j], model_completion=True).as_long()] for j in range(lens[i])) for i in range(k)]
        bn = ba.BooleanNetwork(names)
        import signal

        class _Stuck(BaseException):
            pass

        def _alarm(*a):
            raise _Stuck()
        old_h = signal.signal(signal.SIGALRM, _alarm)
        signal.alarm(15)
        try:
            out = sanitize_network_names(bn)
            got = [out.get_variable_name(v) for v in out.variables()]
        except _Stuck:
            fails.append(f"names {names}: sanitize_network_names did not terminate within 15 s")
            got = None
        except Exception as e:
            fails.append(f"names {names}: raised {type(e).__name__}: {e}")
            got = None
        finally:
            signal.alarm(0)
            signal.signal(signal.SIGALRM, old_h)
        if got is not None:
            ok = (len(got) == k and all(re.match("^[a-zA-Z0-9_]+$", g) for g in got) and len(set(got)) == k
                  and all(g == nm for g, nm in zip(got, names) if re.match("^[a-zA-Z0-9_]+$", nm))
                  and list(bn.variable_names()) == names)
            if not ok:
                fails.append(f"names {names} -> {got}: not distinct / not solver-safe / a valid name was changed / input mutated")
        # class of this run: lengths, per-character validity, and the equality pattern of the char-wise images
        pc = [LEN[i] == lens[i] for i in range(k)]
        for i in range(k):
            for j in range(lens[i]):
                cv = m.eval(C[i][j], model_completion=True).as_long()
                is_valid = bool(re.match("^[a-zA-Z0-9_]$", ALPH[cv]))
                pc.append(valid(C[i][j]) if is_valid else z3.Not(valid(C[i][j])))
                # valid characters matter by identity (collisions), invalid ones all map to '_'
                if is_valid:
                    pc.append(C[i][j] == cv)
        s.add(z3.Not(z3.And(pc)))
        classes += 1
        if len(fails) > 3:
            break
    return classes, fails, False


def run_task(task):
    from engine import oracles
    oracles.install()
    oracles.LIST_ORDER = "canonical"
    if task["params"].get("mode") == "sanitize":
        import time
        t0 = time.time()
        classes, fails, exh = sanitize_check(task["params"]["k"], task["params"]["L"], task["timebox"])
        viol = [{"rules": "", "hist": {}, "kind": "sanitize", "info": {"fail": f}} for f in fails[:3]]
        return {"label": task["label"], "classes": classes, "exhausted": exh, "violations": viol, "inconclusive": [], "observations": classes,
                "samples": [], "queries": {"frontier": classes}, "z3_s": 0, "real_s": 0, "wall_s": time.time() - t0, "hangs": []}
    net = symnet.family(task["family"])
    which = task["params"].get("which")
    selftest = task["params"].get("selftest")
    views, extra = {}, []
    net.views = []
    for (label, perm, flips, vnames, style, fmt) in variants(net.n):
        if which and label not in which:
            continue
        w = view_transformed(net, perm, flips, vnames, "W" + str(len(views)))
        views[label] = w
        net.views.append(w)
        extra += w.defs

    def harness(ctx, rules):
        oracles.AEON_TEXT.clear()
        out = execute(rules, net.names, which, views, True)
        parts = assertion(net, out)
        if selftest:
            parts.append(("selftest", net.FALSE))
        return specs.conj(net, parts), {"nodes": len(out["base"]["dump"]["nodes"]), "variants": list(out["variants"])}
    cube = [net.bits[i] if v else z3.Not(net.bits[i]) for i, v in task.get("cube", [])]
    res = explore(net, harness, extra_constraints=extra, cube=cube, timebox=task["timebox"], seed=task.get("seed", 0), label=task["label"],
                  start_at=task.get("start_at"), max_classes=task.get("max_classes"), class_wall_s=60)
    res["violations"] = res["violations"][:4] + [{"rules": v["rules"], "hist": v["hist"], "kind": v["kind"]} for v in res["violations"][4:40]]
    return res


def replay(rec):
    if rec["params"].get("mode") == "sanitize":
        classes, fails, exh = sanitize_check(rec["params"]["k"], rec["params"]["L"], 60)
        return {"reproduces": bool(fails), "failing": fails[:3], "signature": None}
    B = ConcreteNet.from_bnet(rec["rules"])
    out = execute(rec["rules"], B.names, rec["params"].get("which"), {}, False)
    parts = assertion(B, out)
    if rec["params"].get("selftest"):
        parts.append(("selftest", False))
    failing = specs.failing_parts(B, parts)
    return {"reproduces": bool(failing), "failing": failing[:6], "signature": None}


def tasks(tier, seed, selftest=False):
    T = []
    q = tier == "quick"
    groups = [["cnf", "ite"], ["aeon", "sbml"], ["rename+rotate", "order-only"], ["flip0", "reverse+flipall"], ["rename-prefix"], ["free-inputs"], ["idem", "notnot"], ["object-reversed", "object-rotated"]]
    for g in groups:
        T.append({"prop": PROP, "family": "U2", "label": "U2/" + "+".join(g), "timebox": 60 if q else 600, "seed": seed, "params": {"which": g, "selftest": selftest}})
        if selftest:
            return T
        T.append({"prop": PROP, "family": "D3", "label": "D3/" + "+".join(g), "timebox": 40 if q else 1200, "seed": seed, "params": {"which": g}})
        if not q or g == ["free-inputs"]:
            T.append({"prop": PROP, "family": "S1C2", "label": "S1C2/" + "+".join(g), "timebox": 30 if q else 600, "seed": seed, "params": {"which": g}})
    T.append({"prop": PROP, "family": "-", "label": "sanitize/k=2", "timebox": 90 if q else 900, "seed": seed, "params": {"mode": "sanitize", "k": 2, "L": 2 if q else 3}})
    T.append({"prop": PROP, "family": "-", "label": "sanitize/k=3", "timebox": 60 if q else 900, "seed": seed, "params": {"mode": "sanitize", "k": 3, "L": 1 if q else 2}})
    return T


def main(tier, seed, t0, selftest=False):
    results = common.run_tasks(tasks(tier, seed, selftest))
    return common.finish(PROP, tier, seed, "model_checking", results, t0, selftest=selftest, functions=FUNCTIONS,
                         bounds={"presentations": "network object with reversed / rotated declaration order, identity variables as free inputs (no rule), essential-support DNF duplicated idempotently ((f)&(f), !!(f)), CNF, nested ITE, aeon text, sbml text, renamed+rotated declaration order, renamed to names containing the place prefixes b0_/b1_, order reversed only, variable 0 negated, all variables negated + reversed + renamed + CNF",
                                 "families": "U2, D3 (quick, time-boxed); + S1C2 (thorough)",
                                 "sanitisation": "2 symbolic names of length <= 2 and 3 of length 1 (quick); <= 3 / <= 2 (thorough) over the alphabet " + "".join(ALPH) + "; classes = (lengths, per-character validity, identity of valid characters)",
                                 "outside": "AEON's parsers/serialisers themselves (aeon and sbml text is produced by AEON from the bnet form)"},
                         assumptions=["AEON to_aeon/to_sbml/from_aeon/from_sbml preserve functions and variable order (text re-attached to its denotation)",
                                      "AEON BooleanNetwork.set_variable_name raises iff the name is taken (observed behaviour, used by the clash loop)"])
