"""C06 on the published models (5-321 variables): for the interventions that the real succession_control reports as
successful towards a minimal trap space of the model, z3 decides

  * every step's stable motif (together with the values fixed so far) is a trap space nested in the previous one
    (closedness over the model's validated Petri net) and the chain starts from the percolation of the whole space;
  * every listed override's logical domain of influence - the least fixed point of value propagation from the override
    and the values already fixed, every constant-test a z3 verdict over all states (checks/c11_models.py) - contains the
    step's stable motif;
  * the final trap space (least fixed point of the last motif) is consistent with the target and EVERY minimal trap space
    inside it lies inside the target: the minimal trap spaces inside the final space are enumerated by z3 (find a closed
    subspace that contains none of those found, shrink it to a minimal one, repeat until unsat).

NOT decided on these models: "every attractor of the overridden network reachable from the previous trap space has the
motif's values" (reachability) - decided on the symbolic families of <= 6 variables by the E-CAB tasks of C06."""
from __future__ import annotations
import os
import sys
import time
import z3

FUNCTIONS = ["control.succession_control", "control.successions_to_target", "control.drivers_of_succession", "drivers.find_drivers (via control)",
             "SuccessionDiagram.expand_to_target"]


class Timeout(BaseException):
    pass


def _alarm(*a):
    raise Timeout()


def min_traps_inside(names, trans, S, cap=300):
    """all inclusion-minimal trap spaces inside S, by SAT over allowed places; None if more than cap"""
    A = {(nm, b): z3.Bool(f"al_{nm}_{b}") for nm in names for b in (0, 1)}
    s = z3.Solver()
    s.set("timeout", 120000)
    s.add([z3.Or(A[(nm, 0)], A[(nm, 1)]) for nm in names])
    for pre, ch, b in trans:
        s.add(z3.Implies(z3.And([A[(k, v)] for k, v in pre.items()]), A[(ch, b)]))
    s.add([z3.Not(A[(nm, 1 - b)]) for nm, b in S.items()])
    found, q = [], 0

    def space_of(m):
        T = {}
        for nm in names:
            a0, a1 = z3.is_true(m.eval(A[(nm, 0)], model_completion=True)), z3.is_true(m.eval(A[(nm, 1)], model_completion=True))
            if a0 != a1:
                T[nm] = 1 if a1 else 0
        return T
    while True:
        r = s.check()
        q += 1
        if r == z3.unsat:
            return found, q
        if r != z3.sat:
            raise RuntimeError("unknown")
        T = space_of(s.model())
        while True:      # shrink to a minimal one
            s.push()
            s.add([z3.Not(A[(nm, 1 - b)]) for nm, b in T.items()])
            fr = [nm for nm in names if nm not in T]
            s.add(z3.Or([z3.Not(z3.And(A[(nm, 0)], A[(nm, 1)])) for nm in fr]) if fr else z3.BoolVal(False))
            r = s.check()
            q += 1
            T2 = space_of(s.model()) if r == z3.sat else None
            s.pop()
            if r == z3.unknown:
                raise RuntimeError("unknown")
            if T2 is None:
                break
            T = T2
        found.append(T)
        if len(found) > cap:
            return None, q
        s.add(z3.Not(z3.And([A[(nm, b)] for nm in names for b in (0, 1) if T.get(nm, b) == b])))      # M contains T


def check_model(path, selftest=False, cap_s=120, max_iv=4):
    import signal
    old = signal.signal(signal.SIGALRM, _alarm)
    signal.alarm(int(cap_s))
    try:
        return _check_model(path, selftest, max_iv)
    except Timeout:
        return {"skipped": f"time cap {cap_s}s", "queries": 0}, []
    finally:
        signal.alarm(0)
        signal.signal(signal.SIGALRM, old)


def _check_model(path, selftest, max_iv):
    import biobalm
    from biobalm.control import succession_control
    from checks.C10 import parse_bnet, parse_expr
    from checks.models_tv import pn_transitions
    from checks.c11_models import ConstOracle, lfp
    sys.setrecursionlimit(60000)
    text = open(path).read()
    label0 = os.path.basename(path)
    rules = parse_bnet(text)
    V = {}
    var = lambda nm: V.setdefault(nm, z3.Bool("x_" + nm))
    F = {nm: parse_expr(e, var) for nm, e in rules}
    names = [nm for nm, _ in rules]
    sd0 = biobalm.SuccessionDiagram.from_rules(text)
    if sorted(sd0.network.variable_names()) != sorted(names):
        return {"skipped": "names", "queries": 0}, []
    if not sd0.expand_minimal_spaces(size_limit=200):
        return {"skipped": "minimal-space expansion incomplete", "queries": 0}, []
    targets = [dict(sd0.node_data(i)["space"]) for i in sd0.minimal_trap_spaces()][:2]
    trans = pn_transitions(sd0.petri_net)
    orc = ConstOracle(F, var)
    root, _ = lfp(orc, names, {})
    fails, q, nint = [], 0, 0

    def closed(T):
        ok = lambda k, v: T.get(k, v) == v
        return all(not all(ok(k, v) for k, v in pre.items()) or ok(ch, b) for pre, ch, b in trans)
    for target in targets:
        for strat, md in (("internal", None), ("all", 1)):
            sd = biobalm.SuccessionDiagram.from_rules(text)
            ivs = succession_control(sd, dict(target), strategy=strat, max_drivers_per_succession_node=md, successful_only=False)
            for k, iv in enumerate([iv for iv in ivs if iv.successful][:max_iv]):
                nint += 1
                label = f"{label0}: {strat} intervention {k} towards {dict(list(target.items())[:4])}..: "
                if len(iv.control) != len(iv.succession) or any(len(st) == 0 for st in iv.control):
                    fails.append(label + "reported successful but a step has no override")
                prev, assume = dict(root), {}
                for i, (m, step) in enumerate(zip(iv.succession, iv.control)):
                    m = dict(m)
                    M = dict(prev)
                    if any(M.get(kk, vv) != vv for kk, vv in m.items()):
                        fails.append(label + f"step {i}: the motif contradicts the previous trap space")
                        break
                    M.update(m)
                    if not closed(M):
                        fails.append(label + f"step {i}: motif (with the values fixed so far) is not a trap space")
                    T, _ = lfp(orc, names, M)
                    for d in list(step)[:4]:
                        X = dict(assume)
                        X.update(dict(d))
                        R, _ = lfp(orc, names, X)
                        if any(R.get(kk) != vv for kk, vv in m.items()):
                            fails.append(label + f"step {i}: the domain of influence of override {dict(d)} does not contain the motif {dict(list(m.items())[:4])}")
                    prev, assume = T, T
                final = prev
                if any(final.get(kk, vv) != vv for kk, vv in target.items()):
                    fails.append(label + "final trap space contradicts the target")
                mts, qq = min_traps_inside(names, trans, final)
                q += qq
                if mts is not None:
                    for Mt in mts:
                        if any(Mt.get(kk) != vv for kk, vv in target.items()):
                            fails.append(label + f"a minimal trap space inside the final trap space lies outside the target ({dict(list(Mt.items())[:5])}..)")
                            break
    if selftest:
        fails.append(label0 + ": selftest")
    return {"variables": len(names), "interventions": nint, "queries": q + orc.queries}, fails


def run_task(task):
    t0 = time.time()
    try:
        fd = os.open(os.path.join(os.path.dirname(os.path.dirname(os.path.abspath(__file__))), "scratch", "worker_stderr.log"), os.O_WRONLY | os.O_CREAT | os.O_APPEND)
        os.dup2(fd, 2)
    except OSError:
        pass
    viol, inconc, samples = [], [], []
    q = n = skipped = 0
    for p in task["params"]["models"]:
        if time.time() - t0 > task.get("timebox", 60) * 4:
            skipped += 1
            continue
        try:
            info, fails = check_model(p, selftest=bool(task["params"].get("selftest")), cap_s=task["params"].get("cap_s", 60))
        except RuntimeError as e:
            inconc.append({"reason": f"model {os.path.basename(p)}: {e}"[:200]})
            continue
        except Exception as e:
            inconc.append({"reason": f"model {os.path.basename(p)}: {type(e).__name__}: {e}"[:300]})
            continue
        if info.get("skipped"):
            skipped += 1
            continue
        n += info.get("interventions", 0)
        q += info.get("queries", 0)
        if len(samples) < 2:
            samples.append({"model": os.path.basename(p), **info})
        for f in fails[:2]:
            viol.append({"rules": "", "hist": {}, "kind": "model", "info": {"model": p, "fail": f}})
    return {"label": task["label"], "classes": n, "exhausted": True, "violations": viol[:6], "inconclusive": inconc[:3], "observations": q,
            "samples": samples, "queries": {"model_queries": q, "models_skipped": skipped}, "z3_s": 0, "real_s": time.time() - t0,
            "wall_s": time.time() - t0, "hangs": []}


def replay(rec):
    info, fails = check_model(rec["info"]["model"], selftest=bool(rec["params"].get("selftest")), cap_s=300)
    return {"reproduces": bool(fails), "failing": fails[:4], "signature": None}
