"""C18, third sentence (the part a solver can decide): on the published models of the repository, what biobalm reports is
compared with an INDEPENDENT symbolic computation done by z3 over ALL states of the model (5-321 variables):

  (a) every minimal trap space the library reports is closed under the dynamics (for every fixed variable v = b,
      z3 decides  exists x in T : f_v(x) != b  -> unsat), the reported spaces are pairwise incomparable;
  (b) the fixed-point attractors: the reported minimal trap spaces that fix every variable are exactly the fixed points
      of the network - z3 decides  exists x : f(x) = x and x is not reported  -> unsat  (completeness) and evaluates
      f(s) = s for each reported one (soundness);
  (c) every attractor seed lies in its node's space, the fixed-point nodes' seeds are the fixed points, every minimal
      trap space contains at least one seed (a fixed point exactly one) and no seed lies in two minimal trap spaces.

The update functions are read from the model text by the independent parser of checks/C10.py.  NOT decided here (and
not claimed): that a complex attractor reported inside a minimal trap space is the only attractor there and that no
motif-avoidant attractor exists elsewhere - reachability on up to 2^321 states has no bounded encoding within reach;
on networks of <= 8 variables these are decided by the E-CAB tasks of C18/C01/C12."""
from __future__ import annotations
import os
import sys
import time
import z3

FUNCTIONS = ["SuccessionDiagram.from_rules", "SuccessionDiagram.expand_minimal_spaces", "SuccessionDiagram.minimal_trap_spaces",
             "SuccessionDiagram.expanded_attractor_seeds", "trappist_core.trappist (min / fix)"]


def _alarm(*a):
    raise TimeoutError()


STRATS = {
    # complete strategies (C01, C18): returns True iff the strategy reported completion
    "min": lambda sd, lim: sd.expand_minimal_spaces(size_limit=lim),
    "build": lambda sd, lim: (sd.build(), True)[1],
    "aseeds": lambda sd, lim: sd.expand_attractor_seeds(size_limit=lim),
    "block": lambda sd, lim: sd.expand_block(size_limit=lim),
    "scc": lambda sd, lim: sd.expand_scc(),
    "bfs": lambda sd, lim: sd.expand_bfs(size_limit=150),
    # early stop + skip (C05)
    "bfs3+skiprem": lambda sd, lim: (sd.expand_bfs(size_limit=3), sd.skip_remaining(), True)[2],
    "dfs4+skipall": lambda sd, lim: (sd.expand_dfs(size_limit=4), [sd.skip_to_minimal(i) for i in sorted(sd.stub_ids())], True)[2],
    "min+skip": lambda sd, lim: sd.expand_minimal_spaces(size_limit=lim, skip_ignored=True),
}


def check_model(path, size_limit=400, selftest=False, strat="min", cap_s=90):
    """returns (info, fails)"""
    import signal
    old = signal.signal(signal.SIGALRM, _alarm)
    signal.alarm(int(cap_s))
    try:
        return _check_model(path, size_limit, selftest, strat)
    except TimeoutError:
        return {"skipped": f"time cap {cap_s}s", "queries": 0}, []
    finally:
        signal.alarm(0)
        signal.signal(signal.SIGALRM, old)


def _check_model(path, size_limit, selftest, strat):
    import biobalm
    from checks.C10 import parse_bnet, parse_expr
    sys.setrecursionlimit(60000)
    text = open(path).read()
    label = os.path.basename(path)
    rules = parse_bnet(text)
    V = {}
    var = lambda nm: V.setdefault(nm, z3.Bool("x_" + nm))
    F = {nm: parse_expr(e, var) for nm, e in rules}
    names = [nm for nm, _ in rules]
    sd = biobalm.SuccessionDiagram.from_rules(text)
    if sorted(sd.network.variable_names()) != sorted(names):
        return {"skipped": "variable names differ (sanitised)"}, []
    label = label + "/" + strat
    try:
        complete = STRATS[strat](sd, size_limit)
    except RuntimeError as e:
        if "Exceeded the maximum" in str(e):
            return {"skipped": "resource limit"}, []
        return {"queries": 0}, [f"{label}: the strategy raised RuntimeError: {str(e)[:120]}"]
    except TimeoutError:
        raise
    except Exception as e:
        return {"queries": 0}, [f"{label}: the strategy raised {type(e).__name__}: {str(e)[:120]}"]
    mts = {int(i): dict(sd.node_data(i)["space"]) for i in sd.minimal_trap_spaces()}
    fails, q = [], 0
    s = z3.Solver()
    s.set("timeout", 120000)
    # (a) closedness of every reported minimal trap space
    for i, T in mts.items():
        s.push()
        for k, b in T.items():
            s.add(var(k) == bool(b))
        s.add(z3.Or([F[k] != bool(b) for k, b in T.items()]) if T else z3.BoolVal(False))
        r = s.check()
        q += 1
        s.pop()
        if r == z3.sat:
            fails.append(f"{label}: reported minimal trap space of node {i} is not closed under the dynamics")
        elif r != z3.unsat:
            fails.append(f"{label}: unknown (closedness of node {i})")
    items = list(mts.items())
    for a in range(len(items)):
        for b in range(len(items)):
            if a != b and all(items[a][1].get(k) == v for k, v in items[b][1].items()):
                fails.append(f"{label}: reported minimal trap space {items[a][0]} lies inside {items[b][0]}")
    info = {"variables": len(names), "complete": bool(complete), "minimal_trap_spaces": len(mts), "nodes": len(sd)}
    if not complete:
        info["queries"] = q
        return info, fails      # the expansion stopped at its size limit: nothing is claimed about completeness
    # (b) fixed points
    fps = [T for T in mts.values() if len(T) == len(names)]
    for T in fps:
        s.push()
        for k, b in T.items():
            s.add(var(k) == bool(b))
        s.add(z3.Or([F[k] != var(k) for k in names]))
        r = s.check()
        q += 1
        s.pop()
        if r != z3.unsat:
            fails.append(f"{label}: reported fixed point is not a fixed point")
    s.push()
    s.add([F[k] == var(k) for k in names])
    for T in fps:
        s.add(z3.Or([var(k) != bool(b) for k, b in T.items()]))
    r = s.check()
    q += 1
    if r == z3.sat:
        m = s.model()
        wit = {k: int(z3.is_true(m.eval(var(k), model_completion=True))) for k in names}
        fails.append(f"{label}: the network has a fixed point that is not among the reported minimal trap spaces: " + str({k: wit[k] for k in names[:12]}))
    elif r != z3.unsat:
        fails.append(f"{label}: unknown (completeness of fixed points)")
    s.pop()
    # (c) seeds: the complete strategies report them through expanded_attractor_seeds(); after skipping, every node is asked
    if "skip" in strat:
        seeds = {i: sd.node_attractor_seeds(i, compute=True) for i in sd.node_ids()}
    else:
        seeds = sd.expanded_attractor_seeds()
    per_mts = {i: 0 for i in mts}
    for nid, lst in seeds.items():
        sp = sd.node_data(nid)["space"]
        for sd_ in lst:
            if len(sd_) != len(names) or any(sd_.get(k) != v for k, v in sp.items()):
                fails.append(f"{label}: seed of node {nid} is not a total state inside the node's space")
            # a node's seeds are the attractors NOT inside one of its successors (for skip nodes: its minimal trap spaces)
            for c in sd.node_successors(nid, compute=False) if sd.node_data(nid)["expanded"] else []:
                cs = sd.node_data(c)["space"]
                if all(sd_.get(k) == v for k, v in cs.items()):
                    fails.append(f"{label}: a seed of node {nid} lies inside its successor {c}")
                    break
            inside = [i for i, T in mts.items() if all(sd_.get(k) == v for k, v in T.items())]
            if len(inside) > 1:
                fails.append(f"{label}: a seed lies in two minimal trap spaces")
            for i in inside:
                per_mts[i] += 1
    for i, c in per_mts.items():
        # every trap space contains at least one attractor (a minimal one may contain several: not decided here)
        if c < 1:
            fails.append(f"{label}: no seed lies in the minimal trap space of node {i} (every trap space contains an attractor)")
        if c > 1 and len(mts[i]) == len(names):
            fails.append(f"{label}: the fixed point of node {i} is reported {c} times")
    # every fixed point of the network (z3 established above that they are exactly `fps`) is a seed of some node
    flat = [dict(x) for lst in seeds.values() for x in lst]
    for T in fps:
        if T not in flat:
            fails.append(f"{label}: fixed point {dict(list(T.items())[:6])}.. is not reported as a seed by any node")
    info.update({"fixed_points": len(fps), "seeds": sum(len(v) for v in seeds.values()), "queries": q})
    if selftest:
        fails.append(f"{label}: selftest")
    return info, fails


def run_task(task):
    t0 = time.time()
    strats = task["params"].get("strats", ["min"])
    try:
        fd = os.open(os.path.join(os.path.dirname(os.path.dirname(os.path.abspath(__file__))), "scratch", "worker_stderr.log"), os.O_WRONLY | os.O_CREAT | os.O_APPEND)
        os.dup2(fd, 2)
    except OSError:
        pass
    viol, inconc, samples = [], [], []
    q = n = 0
    for p, strat in [(p, st) for p in task["params"]["models"] for st in strats]:
        if time.time() - t0 > task.get("timebox", 60) * 4:
            continue
        try:
            info, fails = check_model(p, selftest=bool(task["params"].get("selftest")), strat=strat, cap_s=task["params"].get("cap_s", 90))
        except Exception as e:
            inconc.append({"reason": f"model {os.path.basename(p)}/{strat}: {type(e).__name__}: {e}"[:300]})
            continue
        if info.get("skipped"):
            continue
        n += 1
        q += info.get("queries", 0)
        if len(samples) < 2:
            samples.append({"model": os.path.basename(p), **info})
        for f in fails[:2]:
            if "unknown" in f:
                inconc.append({"reason": f})
            else:
                viol.append({"rules": "", "hist": {}, "kind": "model", "info": {"model": p, "strat": strat, "fail": f}})
    return {"label": task["label"], "classes": n, "exhausted": True, "violations": viol[:6], "inconclusive": inconc[:3], "observations": q,
            "samples": samples, "queries": {"model_queries": q}, "z3_s": 0, "real_s": time.time() - t0, "wall_s": time.time() - t0, "hangs": []}


def replay(rec):
    info, fails = check_model(rec["info"]["model"], selftest=bool(rec["params"].get("selftest")), strat=rec["info"].get("strat", "min"), cap_s=240)
    return {"reproduces": bool(fails), "failing": fails[:4], "signature": None}
