"""One-step inductive unit for node depths (part of C20).

The real SuccessionDiagram._ensure_edge / _update_node_depth run on a DAG whose adjacency and depths are
*symbolic*: N nodes in a topological numbering, adjacency bits A[i][j] (i<j), pre-state depths D[j] assumed to
be the longest root path in the pre-state DAG (the representation invariant), one new edge p->c (p<c).
Concolic: the fake networkx view returns the model's values and records what was read (the successor rows of
the visited nodes, the depths read), so a run generalises to every DAG that agrees on the part that was
looked at; z3 then decides that the post-state depths are the longest root paths in the new DAG for all of
them, or returns a concrete DAG, which is replayed on a real networkx graph."""
from __future__ import annotations
import itertools
import time
import z3


class Unmod(Exception):
    pass


def explore_depth(N, timebox, succ_order="asc", seed=0, selftest=False):
    from biobalm.succession_diagram import SuccessionDiagram
    A = {(i, j): z3.Bool(f"A_{i}_{j}") for i in range(N) for j in range(i + 1, N)}
    D = [z3.Int(f"D_{j}") for j in range(N)]
    P, C = z3.Int("p"), z3.Int("c")
    NEWEDGE = z3.Bool("edge_is_new")
    s = z3.Solver()
    s.set("random_seed", seed)
    s.add(D[0] == 0)
    for j in range(1, N):
        preds = [A[i, j] for i in range(j)]
        s.add(z3.Or(preds))                                        # connected to something earlier
        s.add(z3.And([z3.Implies(A[i, j], D[j] >= D[i] + 1) for i in range(j)]))
        s.add(z3.Or([z3.And(A[i, j], D[j] == D[i] + 1) for i in range(j)]))   # longest root path
    s.add(P >= 0, C > P, C < N)
    # the edge p->c is new (the usual case) or already present (a second motif for the same child)
    s.add(NEWEDGE == z3.And([z3.Implies(z3.And(P == i, C == j), z3.Not(A[i, j])) for (i, j) in A]))
    t0 = time.time()
    classes, cexs = 0, []
    while time.time() - t0 < timebox:
        if s.check() != z3.sat:
            return {"classes": classes, "exhausted": True, "cex": cexs}
        m = s.model()
        ev = lambda e: m.eval(e, model_completion=True)
        p, c = ev(P).as_long(), ev(C).as_long()
        pc = [P == p, C == c]
        seen = set()

        def obs(e):
            k = e.get_id()
            b = z3.is_true(ev(e))
            if k not in seen:
                seen.add(k)
                pc.append(e if b else z3.Not(e))
            return b
        depth_now = {}      # written values (concrete); unread, unwritten stay symbolic D[j]

        class NodeData(dict):
            def __init__(self, j):
                self.j = j

            def __getitem__(self, key):
                if key != "depth":
                    raise Unmod(key)
                if self.j in depth_now:
                    return depth_now[self.j]
                v = ev(D[self.j]).as_long()
                pc.append(D[self.j] == v)
                depth_now[self.j] = v
                return v

            def __setitem__(self, key, val):
                if key != "depth":
                    raise Unmod(key)
                depth_now[self.j] = int(val)

        class Nodes:
            def __getitem__(self, j):
                return NodeData(int(j))

        added = set()

        def has(i, j):
            if (i, j) in added:
                return True
            if i < j:
                return obs(A[i, j])
            return False

        class Edges:
            def __getitem__(self, key):
                i, j = key
                if not has(int(i), int(j)):
                    raise KeyError(key)
                return EDGE_DATA.setdefault((int(i), int(j)), {"motif": {}, "all_motifs": [{}]})
        EDGE_DATA = {}

        class Dag:
            nodes = Nodes()
            edges = Edges()

            def has_edge(self, i, j):
                return has(int(i), int(j))

            def add_edge(self, i, j, **kw):
                added.add((int(i), int(j)))
                EDGE_DATA[(int(i), int(j))] = dict(kw)

            def successors(self, i):
                i = int(i)
                out = [j for j in range(i + 1, N) if has(i, j)] + [j for (a, j) in added if a == i and j <= i]
                out = sorted(set(out))
                return iter(out if succ_order == "asc" else out[::-1])

            def predecessors(self, j):
                raise Unmod("predecessors")

            def __getattr__(self, name):
                raise Unmod(name)

        class FakeSD:
            dag = Dag()
            _update_node_depth = SuccessionDiagram._update_node_depth
        fake = FakeSD()
        try:
            SuccessionDiagram._ensure_edge(fake, p, c, {"m": 1})
        except Unmod as e:
            return {"classes": classes, "exhausted": False, "cex": cexs, "unmodelled": str(e)}
        # post-state: ND[j] = written/read value or the untouched symbolic pre-state depth
        ND = [z3.IntVal(depth_now[j]) if j in depth_now else D[j] for j in range(N)]

        def A2(i, j):
            return z3.Or(A[i, j], z3.And(P == i, C == j))
        post = [ND[0] == 0]
        for j in range(1, N):
            post.append(z3.And([z3.Implies(A2(i, j), ND[j] >= ND[i] + 1) for i in range(j)]))
            post.append(z3.Or([z3.And(A2(i, j), ND[j] == ND[i] + 1) for i in range(j)]))
        if selftest:
            post.append(z3.BoolVal(False))
        s.push()
        s.add(pc)
        s.add(z3.Not(z3.And(post)))
        r = s.check()
        if r == z3.sat:
            m2 = s.model()
            cex = {"N": N, "edges": [[i, j] for (i, j) in A if z3.is_true(m2.eval(A[i, j], model_completion=True))],
                   "depths": [m2.eval(D[j], model_completion=True).as_long() for j in range(N)],
                   "new_edge": [m2.eval(P, model_completion=True).as_long(), m2.eval(C, model_completion=True).as_long()], "succ_order": succ_order}
            cexs.append(cex)
        elif r != z3.unsat:
            s.pop()
            return {"classes": classes, "exhausted": False, "cex": cexs, "unknown": True}
        s.pop()
        s.add(z3.Not(z3.And(pc)))
        classes += 1
        if len(cexs) >= 3:
            break
    return {"classes": classes, "exhausted": False, "cex": cexs}


def replay_depth(cex):
    """real networkx DiGraph, real _ensure_edge; judged by a longest-path computation"""
    import networkx as nx
    from biobalm.succession_diagram import SuccessionDiagram
    N = cex["N"]
    g = nx.DiGraph()
    for j in range(N):
        g.add_node(j, depth=cex["depths"][j])
    order = cex["edges"] if cex.get("succ_order", "asc") == "asc" else cex["edges"][::-1]
    for i, j in order:
        g.add_edge(i, j, motif={}, all_motifs=[{}])

    class Fake:
        dag = g
        _update_node_depth = SuccessionDiagram._update_node_depth
    p, c = cex["new_edge"]
    SuccessionDiagram._ensure_edge(Fake(), p, c, {"m": 1})
    want = {0: 0}
    for j in sorted(g.nodes):
        for i in g.predecessors(j):
            if i in want:
                want[j] = max(want.get(j, 0), want[i] + 1)
    for _ in range(N):
        for j in nx.topological_sort(g):
            for i in g.predecessors(j):
                if i in want and want.get(j, -1) < want[i] + 1:
                    want[j] = want[i] + 1
    bad = [j for j in g.nodes if g.nodes[j]["depth"] != want.get(j, 0)]
    return bad, {j: g.nodes[j]["depth"] for j in g.nodes}, want
