"""C03 — every complete expansion strategy finds exactly the minimal trap spaces.
E-CAB history mode: optional plain prefix op (symbolic limits / start nodes), then a completing strategy
(or a limited strategy completed by skipping); when completion is reported the expanded leaves must be
exactly the inclusion-minimal trap spaces for every network of the class."""
from __future__ import annotations
from engine import specs
from checks import hist, histcheck, common

PROP = "C03"
PREFIX = ["bfs", "dfs", "minp", "aseeds", "target", "succ"]
FINAL_ANY = ["fullbfs", "fulldfs", "fmin", "faseeds"]       # complete from any partially expanded diagram
FINAL_FRESH = ["block", "scc"]                               # complete when started on a fresh diagram
FUNCTIONS = ["expand_bfs", "expand_dfs", "expand_minimal_spaces (+make_skip_node)", "expand_attractor_seeds",
             "expand_source_blocks", "expand_source_SCCs (+attach_scc_subdiagram)", "SuccessionDiagram.skip_remaining",
             "SuccessionDiagram.skip_to_minimal", "SuccessionDiagram.minimal_trap_spaces"]


def extra_vars(task, net):
    if task["params"].get("cfg"):
        return hist.declare_config(fields={"cfg_motifs": "max_motifs_per_node"})
    return [], []


def execute(rules, skeleton, H, names, params):
    cfg = None
    if params.get("cfg"):
        cfg = hist.read_config(H, isinstance(H, hist.SymH), fields={"cfg_motifs": "max_motifs_per_node"})
    sd, trace = hist.run_history(rules, skeleton, H, names, config=cfg)
    return {"trace": trace, "mts": sorted(int(i) for i in sd.minimal_trap_spaces())}


def assertion(B, rules, skeleton, out, params):
    parts = []
    trace = out["trace"]
    last = trace[-1]
    if params.get("cfg") and any(e["rec"]["exc"] == "RuntimeError" and "maximum amount of stable motifs" in (e["rec"].get("msg") or "") for e in trace):
        return [("limit error raised", B.const(True))]      # the documented answer to too many stable motifs: nothing claimed
    for k, ent in enumerate(trace):
        exc = ent["rec"]["exc"]
        # a limit error is a legal outcome of a limited op (C15 covers its aftermath); anything else is not
        parts.append((f"op {k} {ent['kind']}: no unexpected exception ({exc}: {ent['rec'].get('msg')})", B.const(exc is None)))
    completed = last["rec"]["exc"] is None and (last["kind"] in ("skiprem", "skipall") or last["rec"]["ret"] is True)
    if last["kind"] in ("bfs", "dfs", "minp", "aseeds") and (last["op"] is None or last["op"].get("node") not in (None, 0)):
        completed = False      # the statement is about strategies started at the root
    if last["kind"] in FINAL_ANY:
        parts.append((f"{last['kind']} without limits reports completion", B.const(last["rec"]["ret"] is True)))
    if completed:
        dump = last["dump"]
        nodes = specs.node_by_id(dump)
        oe = specs.out_edges(dump)
        leaves = [n["id"] for n in nodes.values() if n["expanded"] and not oe[n["id"]]]
        parts.append(("minimal_trap_spaces() lists the expanded leaves", B.const(sorted(leaves) == out["mts"])))
        parts += specs.leaves_are_mintraps(B, dump, require_all_expanded=False)
        if last["kind"] in ("skiprem", "skipall", "fullbfs", "fulldfs", "bfs", "dfs"):
            parts.append(("no unexpanded node remains", B.const(all(n["expanded"] for n in nodes.values()))))
    return parts


def info(out):
    return {"ops": [(e["kind"], e["op"], e["rec"]["ret"], e["rec"]["exc"]) for e in out["trace"]], "mts": out["mts"]}


def run_task(task):
    import checks.C03 as me
    if task["params"].get("mode") == "models":
        from checks import models_tv
        return models_tv.run_task(task)
    return histcheck.run_task(task, me)


def replay(rec):
    import checks.C03 as me
    if rec["params"].get("mode") == "models":
        from checks import models_tv
        return models_tv.replay(rec)
    return histcheck.replay(rec, me)


def tasks(tier, seed, selftest=False):
    S = []
    if selftest:
        return histcheck.mk_tasks(PROP, [dict(family="U2", skeleton=("fullbfs",), timebox=60)], seed, True)
    q = tier == "quick"
    for f in FINAL_ANY + FINAL_FRESH:
        S.append(dict(family="U2", skeleton=(f,), timebox=120))
        S.append(dict(family="D3", skeleton=(f,), timebox=25 if q else 900))
    for lim in ("bfs", "dfs", "minp", "blockp", "block", "aseeds", "target"):
        for fin in ("skiprem", "skipall"):
            S.append(dict(family="U2", skeleton=(lim, fin), timebox=25 if q else 900))
            if not q:
                S.append(dict(family="D3", skeleton=(lim, fin), timebox=300))
    for p in PREFIX:
        for f in FINAL_ANY:
            S.append(dict(family="U2", skeleton=(p, f), timebox=12 if q else 900))
            if not q:
                S.append(dict(family="D3", skeleton=(p, f), timebox=200))
    # limited strategies (symbolic limits) that nevertheless report completion, after a limited prefix; deep diagrams
    # need several independent switches (product family)
    for p in ("bfs", "dfs", "succ"):
        for f in ("bfs", "dfs", "minp", "aseeds"):
            S.append(dict(family="U2", skeleton=(p, f), timebox=8 if q else 600))
            S.append(dict(family="P:SW2+SW2+U1", skeleton=(p, f), timebox=12 if q else 600))
            if not q:
                S.append(dict(family="P:SW2+SW2+SW2", skeleton=(p, f), timebox=600))
                S.append(dict(family="D3", skeleton=(p, f), timebox=300))
    # a small (symbolic) max_motifs_per_node: a strategy either raises the documented limit error or completes exactly
    for f in FINAL_ANY + FINAL_FRESH:
        S.append(dict(family="U2", skeleton=(f,), timebox=6 if q else 300, tag="cfg", params={"cfg": True}))
        S.append(dict(family="P:SW2+SW2", skeleton=(f,), timebox=8 if q else 300, tag="cfg", params={"cfg": True}))
    # inputs presented as free inputs (variables without update function)
    for f in FINAL_ANY + FINAL_FRESH:
        S.append(dict(family="S1C2", skeleton=(f,), timebox=8 if q else 600, tag="free-inputs", params={"free_inputs": True}))
        S.append(dict(family="D3", skeleton=("bfs", f) if f in FINAL_ANY else (f,), timebox=8 if q else 600, tag="free-inputs", params={"free_inputs": True}))
    if not q:
        for f in ("fullbfs", "fmin", "block", "scc"):
            S.append(dict(family="U3", skeleton=(f,), timebox=600, cube_k=5, nbits=24))
        for f in ("block", "scc", "fmin"):
            for fam in ("B22", "CH4", "S2C2"):
                S.append(dict(family=fam, skeleton=(f,), timebox=300, cube_k=4, nbits=20))
    else:
        for f in ("block", "scc"):
            S.append(dict(family="B21", skeleton=(f,), timebox=20))
    T = histcheck.mk_tasks(PROP, S, seed)
    # the published models (5-321 variables): z3 decides over all subspaces that what a complete strategy reports is
    # exactly the set of minimal trap spaces (checks/models_tv.py; the models' Petri nets are validated by C10)
    import glob
    import os
    mdir = os.path.join(os.environ.get("VERIF_REPO", "/repo"), "models/bbm-bnet-inputs-true")
    paths = sorted(glob.glob(os.path.join(mdir, "*.bnet")), key=os.path.getsize)
    allst = ["min", "bfs", "dfs", "block", "scc", "aseeds"]
    nsmall = 90 if q else len(paths)
    for i in range(0, nsmall, 10 if q else 4):
        T.append({"prop": PROP, "family": "-", "label": "models/all-strategies", "timebox": 20 if q else 120, "seed": seed,
                  "params": {"mode": "models", "models": paths[:nsmall][i:i + (10 if q else 4)], "strats": allst}})
    if q:
        rest = paths[nsmall:]
        for i in range(0, len(rest), 8):
            T.append({"prop": PROP, "family": "-", "label": "models/minimal-space-expansion", "timebox": 20, "seed": seed,
                      "params": {"mode": "models", "models": rest[i:i + 8], "strats": ["min", "block"]}})
    return T


def main(tier, seed, t0, selftest=False):
    results = common.run_tasks(tasks(tier, seed, selftest))
    return common.finish(PROP, tier, seed, "model_checking", results, t0, selftest=selftest, functions=FUNCTIONS,
                         bounds={"history": "K<=2: [plain prefix op] + completing strategy, or [limited op] + skip_remaining / skip_to_minimal on all stubs",
                                 "families": "U2 exhaustive for K=1; D3/B21 slices (quick); U3, B22, CH4, S2C2 (thorough, time-boxed cubes)",
                                 "options": "block: maa/optsrc/exact flags symbolic; scc: maa flag; min: skip_ignored flag",
                                 "limits": f"-1(None)..{hist.MAXLIM}",
                                 "published models": "models/bbm-bnet-inputs-true: quick = 90 smallest models x {minimal-space, bfs, dfs, block, scc, attractor-seed} expansion + minimal-space and block expansion on all others; thorough = every strategy on every model; runs that stop at their size limit (bfs/dfs 150 nodes, others 400) or exceed the task's time cap report nothing and are counted; per run z3 decides over all subspaces: reported spaces closed, none contains a smaller trap space, no trap space avoids all of them"},
                         assumptions=["published models: the library's Petri net of the model is the trap-space characterisation used by z3; its equivalence with the update functions over all states is decided per model by C10",
                                      "contract stubs of DESIGN.md §8 validated on every representative",
                                      "compute_attractors_symbolic is a region oracle specified by REACH (decided by C12)"])
