"""C11 on the published models (5-321 variables): the answers of the real percolate_space / percolate_space_strict are
compared with the least fixed point of value propagation computed INDEPENDENTLY by z3 over all states of the model:

  "a further variable is fixed precisely when its update function is constant on the space fixed so far"
      constant(v, X)  :=  exists c : (X and f_v != c) is unsat            (f_v parsed from the model text by C10's parser)
  lfp(S): X := S; repeat { fix every free v with constant(v, X) } until nothing changes          (monotone: unique)

  percolate_space(S)        == lfp(S)                      (given values kept, even when they conflict with the dynamics)
  percolate_space_strict(S) == the variables with a non-constant function that the propagation from S fixes (or confirms),
                               not those whose function contradicts the given value

Spaces per model: the empty space, node spaces of a size-limited expansion, {v: b} for sampled variables (the single-node
LDOI queries), multi-variable spaces built from sampled variables with both polarities (so that some conflict with the
dynamics).  Every constant-test is a z3 verdict over all states of the current space; models are used only to prune
candidates (a variable whose function takes both values in witnesses found so far cannot be constant)."""
from __future__ import annotations
import os
import sys
import time
import z3

FUNCTIONS = ["space_utils.percolate_space", "space_utils.percolate_space_strict", "space_utils.function_eval", "drivers.find_single_node_LDOIs"]


class ConstOracle:
    """decides 'f_v is constant on X' for many v under one set of assumptions, reusing witnesses"""

    def __init__(self, F, var, timeout_ms=60000):
        self.F, self.var = F, var
        self.s = z3.Solver()
        self.s.set("timeout", timeout_ms)
        self.queries = 0

    def constants(self, X, cands):
        """{v: c} for those v in cands whose function is constant c on the subspace X"""
        s = self.s
        s.push()
        for k, b in X.items():
            s.add(self.var(k) == bool(b))
        seen = {}          # v -> set of values observed in witnesses
        out = {}
        unknown = False

        def absorb(m):
            for v in cands:
                if v in out or len(seen.get(v, ())) == 2:
                    continue
                val = z3.is_true(m.eval(self.F[v], model_completion=True))
                seen.setdefault(v, set()).add(val)
        r = s.check()
        self.queries += 1
        if r == z3.sat:
            absorb(s.model())
        for v in cands:
            if len(seen.get(v, ())) == 2:
                continue
            have = next(iter(seen[v])) if seen.get(v) else None
            # is the other value possible?
            for c in ((not have,) if have is not None else (True, False)):
                s.push()
                s.add(self.F[v] == c)
                r = s.check()
                self.queries += 1
                if r == z3.sat:
                    absorb(s.model())
                elif r != z3.unsat:
                    unknown = True
                s.pop()
            if len(seen.get(v, ())) == 1 and not unknown:
                out[v] = int(next(iter(seen[v])))
        s.pop()
        if unknown:
            raise RuntimeError("unknown")
        return out


def lfp(oracle, names, S, only=None, strict=False):
    """least fixed point of propagation from S.  strict: candidates `only`, given values that the dynamics contradict are
    dropped from the report; returns (X, reported)"""
    X = dict(S)
    reported = {}
    cands = [v for v in (only if only is not None else names) if strict or v not in X]
    while True:
        got = oracle.constants(X, cands)
        if not got:
            break
        progress = False
        for v, c in got.items():
            cands.remove(v)
            if v in X and X[v] != c:
                continue            # conflict with a given value: kept as given, never reported
            progress = True
            X[v] = c
            reported[v] = c
        if not progress:
            break
    return X, reported


def check_model(path, nspaces=6, selftest=False):
    import biobalm
    from biobalm.space_utils import percolate_space, percolate_space_strict
    from checks.C10 import parse_bnet, parse_expr
    sys.setrecursionlimit(60000)
    text = open(path).read()
    label = os.path.basename(path)
    rules = parse_bnet(text)
    V = {}
    var = lambda nm: V.setdefault(nm, z3.Bool("x_" + nm))
    F = {nm: parse_expr(e, var) for nm, e in rules}
    names = [nm for nm, _ in rules]
    sd = biobalm.SuccessionDiagram.from_rules(text)
    if sorted(sd.network.variable_names()) != sorted(names):
        return {"skipped": True, "queries": 0}, []
    orc = ConstOracle(F, var)
    nonconst = [v for v in names if v not in orc.constants({}, list(names))]
    sd.expand_bfs(size_limit=nspaces)
    spaces = [{}] + [dict(sd.node_data(i)["space"]) for i in sd.node_ids()][1:nspaces]
    pick = [names[(k * 7919) % len(names)] for k in range(nspaces)]
    for k, v in enumerate(pick):
        spaces.append({v: k % 2})
        spaces.append({v: 1 - k % 2})
    for k in range(3):
        spaces.append({v: (i + k) % 2 for i, v in enumerate(pick[: 2 + k])})
    fails = []
    for S in spaces:
        try:
            want, _ = lfp(orc, names, S)
            got = dict(percolate_space(sd.symbolic, dict(S)))
            if got != want:
                diff = {k: (got.get(k), want.get(k)) for k in set(got) | set(want) if got.get(k) != want.get(k)}
                fails.append(f"{label}: percolate_space({dict(list(S.items())[:4])}) differs from the least fixed point on {dict(list(diff.items())[:4])} (library, z3)")
            _, wants = lfp(orc, names, S, only=list(nonconst), strict=True)
            gots = dict(percolate_space_strict(sd.symbolic, dict(S)))
            if gots != wants:
                diff = {k: (gots.get(k), wants.get(k)) for k in set(gots) | set(wants) if gots.get(k) != wants.get(k)}
                fails.append(f"{label}: percolate_space_strict({dict(list(S.items())[:4])}) differs from the definition on {dict(list(diff.items())[:4])} (library, z3)")
        except RuntimeError:
            fails.append(f"{label}: unknown")
    # single-node LDOI table: keys = both values of every variable with a non-constant function, values = strict percolation
    try:
        from biobalm.drivers import find_single_node_LDOIs
        table = find_single_node_LDOIs(sd.symbolic)
        keys = {(v, b) for v in nonconst for b in (0, 1)}
        if set(table) != keys:
            fails.append(f"{label}: LDOI table keys differ from (non-constant variable, value): {sorted(set(table) ^ keys)[:4]}")
        for v in dict.fromkeys(pick + nonconst[:2]):
            for b in (0, 1):
                if (v, b) not in table:
                    continue
                _, wants = lfp(orc, names, {v: b}, only=list(nonconst), strict=True)
                if dict(table[(v, b)]) != wants:
                    gots = dict(table[(v, b)])
                    diff = {k: (gots.get(k), wants.get(k)) for k in set(gots) | set(wants) if gots.get(k) != wants.get(k)}
                    fails.append(f"{label}: LDOI({v}={b}) differs from strict percolation on {dict(list(diff.items())[:4])} (library, z3)")
    except RuntimeError:
        fails.append(f"{label}: unknown")
    if selftest:
        fails.append(label + ": selftest")
    return {"variables": len(names), "spaces": len(spaces), "queries": orc.queries}, fails


def run_task(task):
    t0 = time.time()
    try:
        fd = os.open(os.path.join(os.path.dirname(os.path.dirname(os.path.abspath(__file__))), "scratch", "worker_stderr.log"), os.O_WRONLY | os.O_CREAT | os.O_APPEND)
        os.dup2(fd, 2)
    except OSError:
        pass
    viol, inconc, samples = [], [], []
    q = n = skipped = 0
    for p in task["params"]["models"]:
        if time.time() - t0 > task.get("timebox", 60) * 4:
            skipped += 1
            continue
        try:
            info, fails = check_model(p, nspaces=task["params"].get("nspaces", 6), selftest=bool(task["params"].get("selftest")))
        except Exception as e:
            inconc.append({"reason": f"model {os.path.basename(p)}: {type(e).__name__}: {e}"[:300]})
            continue
        n += info.get("spaces", 0)
        q += info.get("queries", 0)
        if len(samples) < 2:
            samples.append({"model": os.path.basename(p), **info})
        for f in fails[:2]:
            if f.endswith("unknown"):
                inconc.append({"reason": f})
            else:
                viol.append({"rules": "", "hist": {}, "kind": "model", "info": {"model": p, "fail": f}})
    return {"label": task["label"], "classes": n, "exhausted": True, "violations": viol[:6], "inconclusive": inconc[:3], "observations": q,
            "samples": samples, "queries": {"model_queries": q, "models_skipped_time_cap": skipped}, "z3_s": 0, "real_s": time.time() - t0,
            "wall_s": time.time() - t0, "hangs": []}


def replay(rec):
    info, fails = check_model(rec["info"]["model"], selftest=bool(rec["params"].get("selftest")))
    return {"reproduces": bool(fails), "failing": fails[:4], "signature": None}
