"""C19 — results are reproducible.
The solver contributes the network coverage (path classes of the real code over a symbolic network); every
class representative is built twice in the harness process (with an unrelated diagram built and queried in
between) and once more in a fresh interpreter with a different PYTHONHASHSEED; ids, spaces, edges, motif
lists, depths, seeds and interventions must be identical.  The in-process comparison is class-constant (all
Python values are functions of the path condition); the hash-seed / process dimension is sampled (2 seeds,
3 contexts) and reported as such."""
from __future__ import annotations
import json
import os
import subprocess
import sys
import z3
from engine import specs, ops, symnet
from engine.cab import CTX, explore
from engine.ref import ConcreteNet
from checks import common

PROP = "C19"
STRATS = ["build", "bfs", "dfs", "scc", "aseeds", "min"]     # + "skip", "block", "blockn" on dedicated families (tasks())
FUNCTIONS = ["SuccessionDiagram._expand_one_node (sorted children)", "expand_* strategies (sorted traversal)", "compute_attractor_candidates / run_simulation_minification (fixed seed)",
             "control.succession_control / Intervention (canonical form)", "expand_source_blocks (block ordering)"]
OTHER = "x, !y\ny, x | z\nz, !z & x\n"


class OrdSet(set):
    """a set whose iteration order is fixed by the harness (ascending / descending): the only hash-seed dependent
    behaviour of CPython that the library can observe is the iteration order of sets of strings; running the code under
    two opposite orders exposes any dependence deterministically, for every network of the class"""
    ORDER = "asc"

    def __iter__(self):
        items = sorted(set.__iter__(self), key=repr)
        return iter(items if OrdSet.ORDER == "asc" else items[::-1])

    def _w(self, r):
        return OrdSet(r) if isinstance(r, set) and not isinstance(r, OrdSet) else r

    def __sub__(self, o): return self._w(set.__sub__(self, o))
    def __and__(self, o): return self._w(set.__and__(self, o))
    def __or__(self, o): return self._w(set.__or__(self, o))
    def __rsub__(self, o): return self._w(set.__rsub__(self, o))
    def __rand__(self, o): return self._w(set.__rand__(self, o))
    def __ror__(self, o): return self._w(set.__ror__(self, o))
    def copy(self): return OrdSet(self)
    def __copy__(self): return OrdSet(self)


def with_set_order(order, f):
    """run f() with the name `set` bound to OrdSet inside every biobalm module"""
    import sys as _sys
    mods = [m for k, m in list(_sys.modules.items()) if k == "biobalm" or k.startswith("biobalm.")]
    OrdSet.ORDER = order
    for m in mods:
        m.__dict__["set"] = OrdSet
    try:
        return f()
    finally:
        for m in mods:
            m.__dict__.pop("set", None)


def run_once(rules, strat, names):
    """one build + queries; a library exception is part of the (comparable) result, not a harness error"""
    try:
        return _run_once(rules, strat, names)
    except Exception as e:
        return {"exception": type(e).__name__ + ": " + str(e)[:200]}


def _run_once(rules, strat, names):
    from biobalm import SuccessionDiagram
    from biobalm.control import succession_control
    sd = SuccessionDiagram.from_rules(rules)
    if strat == "build":
        sd.build()
    elif strat == "bfs":
        sd.expand_bfs()
    elif strat == "dfs":
        sd.expand_dfs()
    elif strat == "scc":
        sd.expand_scc()
    elif strat == "block":
        sd.expand_block()
    elif strat == "blockn":
        sd.expand_block(find_motif_avoidant_attractors=False)
    elif strat == "aseeds":
        sd.expand_attractor_seeds()
    elif strat == "min":
        sd.expand_minimal_spaces()
    elif strat == "skip":
        # the root expanded, every stub skipped to its minimal trap spaces (several solver answers consumed in order from
        # a Petri net restricted to the stub)
        sd.node_successors(sd.root(), compute=True)
        for i in sorted(sd.stub_ids()):
            sd.skip_to_minimal(i)
    seeds = {int(i): [ops._t(names, s) for s in v] for i, v in sd.expanded_attractor_seeds().items()}
    dump = ops.dump_sd(sd, names, attractors=True)
    # interventions towards the first minimal trap space (if any), both strategies
    ivs = []
    mts = sd.minimal_trap_spaces()
    for mt in mts[:3]:
        target = dict(sd.node_data(mt)["space"])
        if target:
            for st in ("internal", "all"):
                sd2 = SuccessionDiagram.from_rules(rules)
                for iv in succession_control(sd2, target, strategy=st, successful_only=False):
                    ivs.append(repr(iv))
                    ivs.append(repr(list(iv.all_control_strategies())))
    return json.loads(json.dumps({"dump": dump, "seeds": seeds, "interventions": ivs}, default=str))


def unrelated():
    """an unrelated history: another network built with the default configuration, with a custom configuration obtained
    the documented way (default_config() + changes), with its configuration changed after construction, pickled,
    reclaimed and controlled - none of which may influence a diagram built afterwards"""
    import pickle
    from biobalm import SuccessionDiagram
    from biobalm.control import succession_control
    o = SuccessionDiagram.from_rules(OTHER)
    o.build()
    o.summary()
    cfg = SuccessionDiagram.default_config()
    cfg.update({"max_motifs_per_node": 1, "attractor_candidates_limit": 1, "retained_set_optimization_threshold": 0,
                "nfvs_size_threshold": 0, "minimum_simulation_budget": 1})
    for mutate_after in (False, True):
        try:
            o2 = SuccessionDiagram.from_rules(OTHER) if mutate_after else SuccessionDiagram.from_rules(OTHER, config=cfg)
            if mutate_after:
                for k, v in cfg.items():
                    o2.config[k] = v
            o2.expand_bfs()
            o2.expanded_attractor_seeds()
        except Exception:
            pass        # a limit error of the unrelated diagram is its own business
    try:
        o3 = pickle.loads(pickle.dumps(o))
        o3.reclaim_node_data()
        succession_control(SuccessionDiagram.from_rules(OTHER), {"x": 1}, successful_only=False)
    except Exception:
        pass


def fresh_process(rules, strat, names, hashseed):
    env = dict(os.environ, PYTHONHASHSEED=str(hashseed))
    code = ("import sys, json; sys.path.insert(0, %r); from checks import C19; "
            "print('OUT ' + json.dumps(C19.run_once(%r, %r, %r), default=str))" % (common.ROOT, rules, strat, list(names)))
    p = subprocess.run([sys.executable, "-c", code], capture_output=True, text=True, timeout=300, env=env, cwd=common.ROOT)
    for ln in p.stdout.splitlines():
        if ln.startswith("OUT "):
            return json.loads(ln[4:])
    raise RuntimeError("fresh process failed: " + p.stderr[-500:])


_SEEDS = {}


def pick_hash_seeds(names, k=2):
    """k PYTHONHASHSEED values under which sets of the variable names, of pairs of names and of the Petri-net place
    names (b0_x, b1_x) iterate in pairwise different orders as far as possible: calibrated once per worker, so that the
    sampled seeds are not accidentally equivalent"""
    key = (tuple(names), k)
    if key in _SEEDS:
        return _SEEDS[key]
    orders = {}
    code = ("import sys; n=%r; pl=['b%%d_%%s' %% (b, x) for x in n for b in (0, 1)]; "
            "print([list(set(n)), [list({a,b}) for a in n for b in n if a<b], list(set(pl)), [list({a,b}) for a in pl for b in pl if a<b]])" % (list(names),))
    for hs in range(1, 33):
        p = subprocess.run([sys.executable, "-c", code], capture_output=True, text=True, env=dict(os.environ, PYTHONHASHSEED=str(hs)))
        orders[hs] = eval(p.stdout.strip())

    def dist(a, b):
        oa, ob = orders[a], orders[b]
        return (oa[0] != ob[0]) + sum(1 for x, y in zip(oa[1], ob[1]) if x != y) + 2 * (oa[2] != ob[2]) + sum(1 for x, y in zip(oa[3], ob[3]) if x != y)
    seeds = sorted(orders)
    best = max(((a, b) for a in seeds for b in seeds if a < b), key=lambda ab: dist(*ab))
    chosen = list(best)
    while len(chosen) < k:
        nxt = max((c for c in seeds if c not in chosen), key=lambda c: min(dist(c, d) for d in chosen))
        chosen.append(nxt)
    _SEEDS[key] = tuple(chosen)
    return _SEEDS[key]


def execute(rules, strat, names, cross=True, nseeds=2, extra_seeds=()):
    a = run_once(rules, strat, names)
    asc = with_set_order("asc", lambda: run_once(rules, strat, names))
    desc = with_set_order("desc", lambda: run_once(rules, strat, names))
    CTX.opaque += 1        # the unrelated diagram is not part of the symbolic network
    try:
        unrelated()
    finally:
        CTX.opaque -= 1
    b = run_once(rules, strat, names)
    out = {"a": a, "b": b, "asc": asc, "desc": desc}
    if cross:
        hs = list(pick_hash_seeds(names, nseeds)) + [h for h in extra_seeds if h not in pick_hash_seeds(names, nseeds)]
        for i, h in enumerate(hs):
            out[f"c{i + 1}"] = fresh_process(rules, strat, names, h)
        out["hash_seeds"] = list(hs)
    return out


def assertion(B, out):
    parts = [("the first build raises no exception (" + str(out["a"].get("exception")) + ")", B.const("exception" not in out["a"])),
             ("second build in the same process (after an unrelated diagram) gives identical ids, spaces, edges, motifs, depths, seeds, interventions",
              B.const(out["a"] == out["b"]))]
    parts.append(("results do not depend on the iteration order of sets (ascending vs descending order forced inside the library)",
                  B.const(out["asc"] == out["desc"] and out["asc"] == out["a"])))
    for k in sorted(x for x in out if x[0] == "c" and x[1:].isdigit()):
        if k in out:
            parts.append((f"fresh interpreter with another PYTHONHASHSEED ({k}, seeds {out.get('hash_seeds')}) gives identical results", B.const(out["a"] == out[k])))
    if "c1" in out and "c2" in out:
        parts.append(("the two fresh interpreters (hash seeds chosen so that sets of the variable names iterate in different orders) agree", B.const(out["c1"] == out["c2"])))
    return parts


def run_task(task):
    from engine import oracles
    oracles.install()
    # the fresh interpreters run the clean code with the real library's answer order, so the in-process runs must
    # use it too (the canonical order is a substitution that only the explorer sees)
    oracles.LIST_ORDER = "real"
    net = symnet.family(task["family"])
    strat = task["params"]["strat"]
    selftest = task["params"].get("selftest")
    every = task["params"].get("cross_every", 1)
    count = [0]

    def harness(ctx, rules):
        oracles.AEON_TEXT.clear()
        count[0] += 1
        out = execute(rules, strat, net.names, cross=(count[0] % every == 0), nseeds=int(task["params"].get("nseeds", 2)))
        parts = assertion(net, out)
        if selftest:
            parts.append(("selftest", net.FALSE))
        return specs.conj(net, parts), {"nodes": len(out["a"]["dump"]["nodes"]), "cross": "c1" in out}
    cube = [net.bits[i] if v else z3.Not(net.bits[i]) for i, v in task.get("cube", [])]
    res = explore(net, harness, cube=cube, timebox=task["timebox"], seed=task.get("seed", 0), label=task["label"],
                  start_at=task.get("start_at"), max_classes=task.get("max_classes"), class_wall_s=120)
    return res


def replay(rec):
    B = ConcreteNet.from_bnet(rec["rules"])
    # the replay process runs under PYTHONHASHSEED=0; a dependence on the hash seed that the exploring worker saw under its own
    # (random) seed is looked for under the calibrated seeds and under the fixed seeds 1..8
    out = execute(rec["rules"], rec["params"]["strat"], B.names, cross=True, nseeds=max(4, int(rec["params"].get("nseeds", 2))), extra_seeds=tuple(range(1, 9)))
    parts = assertion(B, out)
    if rec["params"].get("selftest"):
        parts.append(("selftest", False))
    failing = specs.failing_parts(B, parts)
    return {"reproduces": bool(failing), "failing": failing[:4], "signature": None}


def tasks(tier, seed, selftest=False):
    T = []
    q = tier == "quick"
    for st in STRATS:
        T.append({"prop": PROP, "family": "U2", "label": f"U2/{st}", "timebox": 40 if q else 600, "seed": seed,
                  "params": {"strat": st, "selftest": selftest, "cross_every": 3 if q else 1}})
        if selftest:
            break
        T.append({"prop": PROP, "family": "D3", "label": f"D3/{st}", "timebox": 40 if q else 900, "seed": seed,
                  "params": {"strat": st, "cross_every": 5 if q else 2}})
        if st in ("bfs", "build"):
            # every variable in the negative feedback vertex set: retained-set heuristics and their greedy optimisation
            T.append({"prop": PROP, "family": "N3", "label": f"N3/{st}", "timebox": 40 if q else 900, "seed": seed,
                      "params": {"strat": st, "cross_every": 6}})
            T.append({"prop": PROP, "family": "SYM4", "label": f"SYM4/{st}", "timebox": 40 if q else 900, "seed": seed,
                      "params": {"strat": st, "cross_every": 4}})
            # networks with symmetric driver sets (two valuations of the same variable pair force a third variable)
            T.append({"prop": PROP, "family": "U3sym", "label": f"U3sym/{st}", "timebox": 40 if q else 900, "seed": seed,
                      "params": {"strat": st, "cross_every": 1, "nseeds": 3}})
        if not q:
            T.append({"prop": PROP, "family": "B22", "label": f"B22/{st}", "timebox": 600, "seed": seed, "params": {"strat": st, "cross_every": 4}})
    if not selftest:
        # "P:RING3+SW2": a stub that fixes more than half of the variables and still holds two minimal trap spaces
        for fam in ("P:RING3+SW2", "P:SW2+SW2", "D3"):
            T.append({"prop": PROP, "family": fam, "label": f"{fam}/skip", "timebox": 40 if q else 900, "seed": seed, "params": {"strat": "skip", "cross_every": 1, "nseeds": 4}})
        # two independent switches: the root has two incomparable minimal source blocks with equally many motifs, so the
        # block expansion has to break a tie (the order of the blocks must not come from a set / dict of frozensets);
        # set comprehensions and frozensets are not reached by the OrdSet stand-in, so every class is compared across
        # four fresh interpreters with calibrated hash seeds
        for fam, st in (("P:SW2+SW2", "block"), ("P:SW2+SW2", "blockn"), ("P:MAA3+SW2", "block"), ("D3", "block"), ("D3", "blockn"), ("P:SW2+SW2", "scc")):
            T.append({"prop": PROP, "family": fam, "label": f"{fam}/{st}", "timebox": 40 if q else 900, "seed": seed, "params": {"strat": st, "cross_every": 1, "nseeds": 4}})
    return T


def main(tier, seed, t0, selftest=False):
    results = common.run_tasks(tasks(tier, seed, selftest))
    return common.finish(PROP, tier, seed, "model_checking", results, t0, selftest=selftest, functions=FUNCTIONS,
                         bounds={"strategies": ",".join(STRATS) + ",skip,block (expand_block),blockn (expand_block without MAA search)" + " + succession_control (both strategies, incl. all_control_strategies()) towards the first three minimal trap spaces",
                                 "set order": "every class additionally runs with all biobalm-level set() objects iterating in ascending and in descending order (deterministic stand-in for the hash seed; class-constant)",
                                 "families": "U2, D3, SYM4 (4 variables, two-variable motif with symmetric two-variable drivers), U3sym (3 variables constrained by the solver to have symmetric driver sets) (quick, time-boxed; fresh-interpreter comparison on every 3rd/5th/every class); P:SW2+SW2 and P:MAA3+SW2 (products with two independent source blocks) under block expansion with four fresh interpreters per class; + B22 (thorough)",
                                 "hash seeds": "harness process seed + two PYTHONHASHSEEDs calibrated per variable-name set so that sets of the names iterate in maximally different orders (sampled dimension; CPython string hashing is not encoded)"},
                         assumptions=["the cross-process comparison is per representative; only the in-process comparison is class-constant"])
