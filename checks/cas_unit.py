"""Unit harness for compute_attractors_symbolic (used by C01 and C12): for an arbitrary *valid* candidate list
the function must return a system of distinct representatives of the node's attractors.

The node is the (unexpanded or expanded) root of a symbolic network; the candidate list is every state of the
node that is outside the child motifs, in a solver-chosen order (a symbolic permutation) - always a cover, and
the hardest one: every attractor with k states has k candidates.  Runs in fine mode, so the reachability loop
is class-constant and z3 decides 'exactly one seed per attractor, each seed one of the candidates' per class."""
from __future__ import annotations
import itertools
import z3
from engine import specs, ops, symnet, fine
from engine.symnet import in_space
from engine.cab import CTX, SymInt, explore
from engine.ref import ConcreteNet


def declare(n):
    N = 2 ** n
    P = [z3.Int(f"perm{i}") for i in range(N)]
    cs = [z3.And(p >= 0, p < N) for p in P] + [z3.Distinct(P)]
    return P + [z3.Bool("expand_first"), z3.Bool("seeds_only")], cs


def execute(rules, names, hist, symbolic):
    from biobalm import SuccessionDiagram
    import biobalm.succession_diagram as SDM
    n = len(names)
    N = 2 ** n
    if symbolic:
        perm = [SymInt(z3.Int(f"perm{i}")).concrete() for i in range(N)]
        expand_first = CTX.obs(z3.Bool("expand_first"))
        seeds_only = CTX.obs(z3.Bool("seeds_only"))
    else:
        perm = [int(hist[f"perm{i}"]) for i in range(N)]
        expand_first, seeds_only = bool(hist.get("expand_first")), bool(hist.get("seeds_only"))
    sd = SuccessionDiagram.from_rules(rules)
    if expand_first:
        sd.node_successors(0, compute=True)
    space = sd.node_data(0)["space"]
    motifs = [sd.edge_stable_motif(0, c) for c in sd.dag.successors(0)] if expand_first else []
    states = list(itertools.product((0, 1), repeat=n))
    cands = []
    for k in perm:
        x = dict(zip(names, states[k]))
        if all(x[v] == b for v, b in space.items()) and not any(all(x[v] == b for v, b in m.items()) for m in motifs):
            cands.append(x)
    r = ops.guarded(lambda: SDM.compute_attractors_symbolic(sd, 0, candidate_states=cands, seeds_only=seeds_only))
    out = {"exc": r["exc"], "msg": r.get("msg"), "cands": [ops._t(names, c) for c in cands], "dump": ops.dump_sd(sd, names, attractors=False),
           "seeds_only": seeds_only}
    if r["exc"] is None:
        seeds, sets = r["ret"]
        out["seeds"] = [ops._t(names, s) for s in seeds]
        out["nsets"] = None if sets is None else len(sets)
    return out


def assertion(B, out):
    parts = [(f"compute_attractors_symbolic raised {out['exc']}: {out.get('msg')}", B.const(out["exc"] is None))]
    if out["exc"]:
        return parts
    seeds = [tuple(s) for s in out["seeds"]]
    cands = [tuple(c) for c in out["cands"]]
    parts.append(("every seed is one of the candidates, none twice", B.const(all(s in cands for s in seeds) and len(set(seeds)) == len(seeds))))
    parts.append(("sets returned unless seeds_only", B.const(out["seeds_only"] or out["nsets"] == len(seeds))))
    for s in seeds:
        parts.append((f"seed {s} lies in an attractor", B.attr(s)))
    for x in cands:
        hits = [B.And(B.reach(x, s), B.reach(s, x)) for s in seeds]
        one = B.Or([B.And([h] + [B.Not(h2) for j, h2 in enumerate(hits) if j != i]) for i, h in enumerate(hits)])
        parts.append((f"attractor of {x} (outside the child motifs) has exactly one seed", B.Implies(B.attr(x), one)))
    return parts


def run_task(task):
    from engine import oracles
    oracles.install()
    oracles.LIST_ORDER = "canonical"
    fine.ENABLED["on"] = bool(task["params"].get("fine", True))
    net = symnet.family(task["family"])
    vs, cs = declare(net.n)
    selftest = task["params"].get("selftest")

    def harness(ctx, rules):
        oracles.AEON_TEXT.clear()
        out = execute(rules, net.names, None, True)
        parts = assertion(net, out)
        if fine.ENABLED["on"]:
            for rec in ctx.symsets:
                if rec["sets"] is None:
                    continue
                for sx, ss in zip(rec["seeds"], rec["sets"]):
                    for y, f in ss.d.items():
                        parts.append((f"[class level] closure of seed {sx} contains {y} iff reachable from the seed", net.Iff(f, net.reach(sx, y))))
        if selftest:
            parts.append(("selftest", net.FALSE))
        return specs.conj(net, parts), {"cands": len(out["cands"]), "seeds": out.get("seeds")}
    cube = [net.bits[i] if v else z3.Not(net.bits[i]) for i, v in task.get("cube", [])]
    res = explore(net, harness, extra_vars=vs, extra_constraints=cs, cube=cube, timebox=task["timebox"], seed=task.get("seed", 0), label=task["label"],
                  start_at=task.get("start_at"), max_classes=task.get("max_classes"))
    res["violations"] = res["violations"][:4] + [{"rules": v["rules"], "hist": v["hist"], "kind": v["kind"]} for v in res["violations"][4:40]]
    return res


def replay(rec):
    B = ConcreteNet.from_bnet(rec["rules"])
    out = execute(rec["rules"], B.names, rec.get("hist", {}), False)
    parts = assertion(B, out)
    if rec["params"].get("selftest"):
        parts.append(("selftest", False))
    failing = specs.failing_parts(B, parts)
    return {"reproduces": bool(failing), "failing": failing[:6], "signature": None}
