"""C05 — diagrams completed with skip nodes never lose an attractor.
E-CAB: a (limited) strategy call with symbolic limits, completion by skip_remaining / skip_to_minimal on all
stubs / minimal-space expansion with skip_ignored, then seeds for every node; z3 decides that every seed lies
in an attractor inside its node, every attractor has at least one seed, and exactly one if the network has no
motif-avoidant attractor."""
from __future__ import annotations
from engine import specs
from checks import hist, histcheck, common

PROP = "C05"
LIMITED = ["bfs", "dfs", "succ", "minp", "aseeds", "target", "blockp"]
SKIPS = ["skiprem", "skipall"]
FUNCTIONS = ["SuccessionDiagram.skip_remaining", "SuccessionDiagram.skip_to_minimal", "expand_minimal_spaces(skip_ignored=True) / make_skip_node",
             "compute_attractor_candidates (skip-node intersection exclusion)", "SuccessionDiagram.node_attractor_seeds"]


def extra_vars(task, net):
    if task["params"].get("cfg"):
        return hist.declare_config(fields={"cfg_motifs": "max_motifs_per_node"})
    return [], []


def execute(rules, skeleton, H, names, params):
    cfg = None
    if params.get("cfg"):
        cfg = hist.read_config(H, isinstance(H, hist.SymH), fields={"cfg_motifs": "max_motifs_per_node"})
    sd, trace = hist.run_history(rules, skeleton, H, names, attractors=True, config=cfg)
    return {"trace": trace}


def assertion(B, rules, skeleton, out, params):
    parts = []
    tr = out["trace"]
    for k, ent in enumerate(tr):
        if ent["rec"].get("skipped"):
            continue
        exc = ent["rec"]["exc"]
        # with a small configured motif limit the documented limit error is a legal outcome (then nothing is claimed)
        legal = exc is None or (params.get("cfg") and exc == "RuntimeError" and "maximum amount of stable motifs" in (ent["rec"].get("msg") or ""))
        parts.append((f"op {k} {ent['kind']}: no exception ({exc}: {ent['rec'].get('msg')})", B.const(bool(legal))))
    if any(e["rec"]["exc"] is not None for e in tr):
        return parts
    dump = tr[-1]["dump"]
    nodes = specs.node_by_id(dump)
    if skeleton[-2] == "fmin" and tr[-2]["rec"]["ret"] is not True:
        return parts
    seeds = {int(k): v for k, v in tr[-1]["rec"]["ret"].items()}
    complete = all(n["expanded"] for n in nodes.values())
    for nid, ss in seeds.items():
        S = nodes[nid]["space"]
        for s in ss:
            s = tuple(s)
            tot = all(v is not None for v in s) and specs.in_space(s, S)
            parts.append((f"seed {s} of node {nid} is a total state in the node space", B.const(tot)))
            if tot:
                parts.append((f"seed {s} of node {nid} lies in an attractor", B.attr(s)))
    if complete:
        parts += specs.seeds_cover(B, dump, seeds, exactly_once=False)
        nomaa = B.Not(specs.has_motif_avoidant(B))
        parts += [(l + " (no motif-avoidant attractor)", B.Implies(nomaa, f)) for l, f in specs.seeds_cover(B, dump, seeds, exactly_once=True)]
    return parts


def info(out):
    return {"ops": [(e["kind"], e["op"], e["rec"]["exc"]) for e in out["trace"]], "nodes": len(out["trace"][-1]["dump"]["nodes"]),
            "skipped": sum(1 for n in out["trace"][-1]["dump"]["nodes"] if n["skipped"])}


def run_task(task):
    import checks.C05 as me
    if task["params"].get("mode") == "models":
        from checks import c18_models
        return c18_models.run_task(task)
    return histcheck.run_task(task, me)


def replay(rec):
    import checks.C05 as me
    if rec["params"].get("mode") == "models":
        from checks import c18_models
        return c18_models.replay(rec)
    return histcheck.replay(rec, me)


def tasks(tier, seed, selftest=False):
    S = []
    q = tier == "quick"
    if selftest:
        return histcheck.mk_tasks(PROP, [dict(family="U2", skeleton=("succ", "skiprem", "everyseeds"), timebox=60)], seed, True)
    for lim in LIMITED:
        for sk in SKIPS:
            S.append(dict(family="U2", skeleton=(lim, sk, "everyseeds"), timebox=15 if q else 900))
            S.append(dict(family="D3", skeleton=(lim, sk, "everyseeds"), timebox=10 if q else 900))
    for pre in ((), ("succ",), ("bfs",)):
        S.append(dict(family="U2", skeleton=pre + ("fmin", "everyseeds"), timebox=30 if q else 900))
        S.append(dict(family="D3", skeleton=pre + ("fmin", "everyseeds"), timebox=20 if q else 900))
    # modular networks with a motif-avoidant core (solver-constrained) next to sources / switches: this is where
    # skip nodes overlap around a motif-avoidant attractor
    for fam, box in (("P:MAA3+SRC1", 40), ("P:MAA3+SW2", 40), ("P:MAA3+SW2+SW2", 60)):
        for sk in (("succ", "skiprem", "everyseeds"), ("succ", "skipall", "everyseeds")):
            S.append(dict(family=fam, skeleton=sk, timebox=box if q else 900))
    # minimal-space expansion with skip_ignored on the modular families (skip nodes created by make_skip_node)
    for fam, box in (("MAAG5", 40), ("P:MAA3+SW2", 20), ("P:MAA3+SRC1", 15)):
        for sk in (("fmin", "everyseeds"), ("succ", "fmin", "everyseeds")):
            S.append(dict(family=fam, skeleton=sk, timebox=box if q else 900))
    # a small (symbolic) max_motifs_per_node: skipping must either raise the limit error or keep every minimal trap space
    for sk in (("skipall", "everyseeds"), ("succ", "skipall", "everyseeds"), ("skiprem", "everyseeds"), ("fmin", "everyseeds")):
        S.append(dict(family="U2", skeleton=sk, timebox=15 if q else 600, tag="cfg", params={"cfg": True}))
        S.append(dict(family="P:SW2+SW2", skeleton=sk, timebox=15 if q else 600, tag="cfg", params={"cfg": True}))
    # attractor data that exists BEFORE the skip (a query on a stub, then reclaim / pickle): the skip must not keep it
    for sk in (("succ", "seeds", "reclaim", "skiprem", "everyseeds"), ("succ", "sets", "skipall", "everyseeds"), ("succ", "seeds", "pickle", "skiprem", "everyseeds"),
               ("seeds", "reclaim", "fmin", "everyseeds")):
        S.append(dict(family="U2", skeleton=sk, timebox=8 if q else 600))
        S.append(dict(family="D3", skeleton=sk, timebox=8 if q else 600))
        S.append(dict(family="P:SW2+SW2", skeleton=sk, timebox=10 if q else 600))
    S.append(dict(family="U2", skeleton=("skiprem", "everyseeds"), timebox=60))
    S.append(dict(family="D3", skeleton=("skiprem", "everyseeds"), timebox=20 if q else 900))
    if not q:
        for sk in (("succ", "skiprem", "everyseeds"), ("bfs", "skipall", "everyseeds"), ("fmin", "everyseeds")):
            S.append(dict(family="U3", skeleton=sk, timebox=600, cube_k=5, nbits=24))
            for fam in ("B22", "CH4"):
                S.append(dict(family=fam, skeleton=sk, timebox=300, cube_k=3, nbits=20))
    T = histcheck.mk_tasks(PROP, S, seed)
    # published models: early-stopped expansions completed by skipping, seeds requested on every node; z3 decides over
    # all states that every fixed point of the model is reported by some node, minimal trap spaces are covered, seeds
    # lie in their node's space (checks/c18_models.py)
    import glob
    import os
    mdir = os.path.join(os.environ.get("VERIF_REPO", "/repo"), "models/bbm-bnet-inputs-true")
    paths = sorted(glob.glob(os.path.join(mdir, "*.bnet")), key=os.path.getsize)
    paths = paths[:150] if q else paths
    for i in range(0, len(paths), 10 if q else 3):
        T.append({"prop": PROP, "family": "-", "label": "models/stop+skip", "timebox": 20 if q else 200, "seed": seed,
                  "params": {"mode": "models", "models": paths[i:i + (10 if q else 3)], "strats": ["bfs3+skiprem", "dfs4+skipall", "min+skip"], "cap_s": 20 if q else 150}})
    return T


def main(tier, seed, t0, selftest=False):
    results = common.run_tasks(tasks(tier, seed, selftest))
    return common.finish(PROP, tier, seed, "model_checking", results, t0, selftest=selftest, functions=FUNCTIONS,
                         bounds={"history": "limited strategy (symbolic limits/start/target) + skip_remaining | skip_to_minimal on every stub, or [prefix] + expand_minimal_spaces(skip_ignored symbolic); then seeds on every node",
                                 "families": "U2, D3, P:MAA3+SRC1, P:MAA3+SW2, P:MAA3+SW2+SW2 (4-7 variables, motif-avoidant core x source/switches) time-boxed (quick); + U3 cubes, B22, CH4 (thorough)",
                                 "motif-avoidant": "SymNet predicate: some attractor state lies in no minimal trap space",
                                 "published models": "150 smallest models (quick) / all 210 (thorough) x {bfs(3)+skip_remaining, dfs(4)+skip_to_minimal on every stub, expand_minimal_spaces(skip_ignored=True)}, seeds on every node: every fixed point of the model (z3 over all states) is reported by some node, every minimal trap space contains a seed, seeds lie in their node's space; complex attractors on these models are not decided"},
                         assumptions=["contract stubs of DESIGN.md §8 validated on every representative"])
