"""C09 on the published models (5-321 variables): the answers of the real trappist() (problems min / max / fix, with an
enclosing subspace and avoided subspaces) are decided by z3 to be EXACTLY the requested trap spaces.

A subspace = the set of allowed places of the model's Petri net; closed iff every transition whose pre-set is allowed
has its produced place allowed (the net itself is validated against the update functions over all states by C10).
  cand(M) := closed(M) and M inside `ensure` and M inside none of `avoid` [max: M fixes every source and some variable
             that `ensure` leaves free]
  min : every answer is a candidate; no candidate lies strictly inside an answer; no candidate contains none of the answers
  max : every answer is a candidate; no candidate strictly contains an answer; no candidate is contained in none of them
  fix : the answers are exactly the candidates that fix every variable
Arguments per model: ensure in {whole space, spaces of the first diagram nodes}; avoid in {none, the first answer, the first
two answers} - the way the library itself calls the solver."""
from __future__ import annotations
import os
import sys
import time
import z3

FUNCTIONS = ["trappist_core.trappist", "trappist_core._create_clingo_constraints", "trappist_core._clingo_model_to_space",
             "petri_net_translation.extract_source_variables"]


def decide(names, trans, problem, ensure, avoid, srcs, answers, label, reverse=False):
    A = {(nm, b): z3.Bool(f"al_{nm}_{b}") for nm in names for b in (0, 1)}
    s = z3.Solver()
    s.set("timeout", 120000)
    s.add([z3.Or(A[(nm, 0)], A[(nm, 1)]) for nm in names])
    for pre, ch, b in trans:
        if not reverse:
            s.add(z3.Implies(z3.And([A[(k, v)] for k, v in pre.items()]), A[(ch, b)]))
        else:
            # time reversal: nothing ENTERS the space - if the state reached by the transition can lie in M (its other
            # preconditions and the produced value are allowed) then the state it came from lies in M as well
            s.add(z3.Implies(z3.And([A[(k, v)] for k, v in pre.items() if k != ch] + [A[(ch, b)]]), A[(ch, 1 - b)]))
    inside = lambda T: z3.And([z3.Not(A[(nm, 1 - b)]) for nm, b in T.items()]) if T else z3.BoolVal(True)      # M inside T
    contains = lambda T: z3.And([A[(nm, b)] for nm in names for b in (0, 1) if T.get(nm, b) == b])                 # M contains T
    fixed = lambda nm: z3.Not(z3.And(A[(nm, 0)], A[(nm, 1)]))
    s.add(inside(ensure))
    for a in avoid:
        s.add(z3.Not(inside(a)))
    free = [nm for nm in names if nm not in ensure]
    if problem == "max":
        if free:
            s.add([fixed(nm) for nm in srcs])
        s.add(z3.Or([fixed(nm) for nm in free]) if free else z3.BoolVal(True))
    if problem == "fix":
        s.add([fixed(nm) for nm in names])
    fails, q = [], 0

    def is_cand(T):
        ok = lambda k, v: T.get(k, v) == v
        if not reverse and not all(not all(ok(k, v) for k, v in pre.items()) or ok(ch, b) for pre, ch, b in trans):
            return False
        if reverse and not all(not (all(ok(k, v) for k, v in pre.items() if k != ch) and ok(ch, b)) or ok(ch, 1 - b) for pre, ch, b in trans):
            return False
        if not all(T.get(k) == v for k, v in ensure.items()):
            return False
        if any(all(T.get(k) == v for k, v in a.items()) for a in avoid):
            return False
        if problem == "max" and free and (any(nm not in T for nm in srcs) or not any(nm in T for nm in free)):
            return False
        if problem == "fix" and len(T) != len(names):
            return False
        return True
    for T in answers:
        if not is_cand(T):
            fails.append(f"{label}: answer {dict(list(T.items())[:6])}.. is not a requested trap space")
    if len({tuple(sorted(T.items())) for T in answers}) != len(answers):
        fails.append(f"{label}: an answer is listed twice")
    # completeness
    s.push()
    for T in answers:
        s.add(z3.Not(contains(T)) if problem == "min" else z3.Not(inside(T)))
    r = s.check()
    q += 1
    s.pop()
    if r == z3.sat:
        fails.append(f"{label}: a requested trap space is {'above' if problem == 'min' else 'inside'} none of the {len(answers)} answers (one is missing)")
    elif r != z3.unsat:
        fails.append(f"{label}: unknown")
    # extremality of each answer
    if problem in ("min", "max"):
        for T in answers[:40]:
            s.push()
            if problem == "min":
                s.add(inside(T))
                fr = [nm for nm in names if nm not in T]
                s.add(z3.Or([fixed(nm) for nm in fr]) if fr else z3.BoolVal(False))
            else:
                s.add(contains(T))
                s.add(z3.Or([z3.Not(fixed(nm)) for nm in T]) if T else z3.BoolVal(False))
            r = s.check()
            q += 1
            s.pop()
            if r == z3.sat:
                fails.append(f"{label}: answer {dict(list(T.items())[:6])}.. is not inclusion-{'minimal' if problem == 'min' else 'maximal'} among the requested trap spaces")
            elif r != z3.unsat:
                fails.append(f"{label}: unknown")
    return q, fails


def check_model(path, selftest=False, max_calls=14):
    import biobalm
    from biobalm.trappist_core import trappist
    from biobalm.petri_net_translation import extract_source_variables
    from checks.models_tv import pn_transitions
    sys.setrecursionlimit(60000)
    text = open(path).read()
    label0 = os.path.basename(path)
    sd = biobalm.SuccessionDiagram.from_rules(text)
    names = list(sd.network.variable_names())
    pn = sd.petri_net
    trans = pn_transitions(pn)
    srcs = list(extract_source_variables(pn))
    sd.expand_bfs(size_limit=3)
    ensures = [{}] + [dict(sd.node_data(i)["space"]) for i in list(sd.node_ids())[1:3]]
    fails, q, calls = [], 0, 0
    for ens, problem, reverse in [(e, p_, False) for e in ensures for p_ in ("min", "max", "fix")] + [({}, "min", True), ({}, "max", True)]:
        if True:
            prev = []
            for k in range(3):
                if calls >= max_calls:
                    break
                avoid = [dict(a) for a in prev[:k]]
                if k > 0 and len(prev) < k:
                    break
                if reverse and k > 0:
                    break
                ans = [dict(x) for x in trappist(pn, problem=problem, reverse_time=reverse, ensure_subspace=dict(ens), avoid_subspaces=avoid, solution_limit=400)]
                calls += 1
                if len(ans) >= 400:
                    break       # cut off by the limit: only soundness could be claimed; skipped
                if k == 0:
                    prev = [a for a in ans if a]       # an empty avoided space is not a meaningful argument
                label = f"{label0}: trappist({problem}{', reverse_time' if reverse else ''}, ensure={len(ens)} fixed, avoid={len(avoid)})"
                qq, ff = decide(names, trans, problem, ens, avoid, [] if reverse else srcs, ans, label, reverse=reverse)
                q += qq
                fails += ff
    if selftest:
        fails.append(label0 + ": selftest")
    return {"variables": len(names), "calls": calls, "queries": q}, fails


def run_task(task):
    t0 = time.time()
    try:
        fd = os.open(os.path.join(os.path.dirname(os.path.dirname(os.path.abspath(__file__))), "scratch", "worker_stderr.log"), os.O_WRONLY | os.O_CREAT | os.O_APPEND)
        os.dup2(fd, 2)
    except OSError:
        pass
    viol, inconc, samples = [], [], []
    q = n = skipped = 0
    for p in task["params"]["models"]:
        if time.time() - t0 > task.get("timebox", 60) * 4:
            skipped += 1
            continue
        try:
            info, fails = check_model(p, selftest=bool(task["params"].get("selftest")), max_calls=task["params"].get("max_calls", 12))
        except Exception as e:
            inconc.append({"reason": f"model {os.path.basename(p)}: {type(e).__name__}: {e}"[:300]})
            continue
        n += info.get("calls", 0)
        q += info.get("queries", 0)
        if len(samples) < 2:
            samples.append({"model": os.path.basename(p), **info})
        for f in fails[:2]:
            if f.endswith("unknown"):
                inconc.append({"reason": f})
            else:
                viol.append({"rules": "", "hist": {}, "kind": "model", "info": {"model": p, "fail": f}})
    return {"label": task["label"], "classes": n, "exhausted": True, "violations": viol[:6], "inconclusive": inconc[:3], "observations": q,
            "samples": samples, "queries": {"model_queries": q, "models_skipped_time_cap": skipped}, "z3_s": 0, "real_s": time.time() - t0,
            "wall_s": time.time() - t0, "hangs": []}


def replay(rec):
    info, fails = check_model(rec["info"]["model"], selftest=bool(rec["params"].get("selftest")))
    return {"reproduces": bool(fails), "failing": fails[:4], "signature": None}
