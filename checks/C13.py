"""C13 — every operation terminates within bounded work.
E-CAB coarse: every public operation is run on the representative of every path class under a generous
CPU-time budget (20 s of process CPU time for networks of <= 4 variables, with a 300 s wall-clock backstop; ordinary classes take milliseconds).  A representative
that exceeds the budget is replayed on the clean code with a 60 s time-out and reported if it hangs again.
Inside the opaque attractor region (symbolic_attractor_test) the path is not class-constant, so in coarse tasks the
statement is per representative there; the tasks tagged 'fine' run the region on vertex-set handles with a symbolic
denotation (engine/fine.py), which makes the loop's path class-constant and the statement class-level."""
from __future__ import annotations
import itertools
from engine import specs, ops
from checks import hist, histcheck, common

PROP = "C13"
FUNCTIONS = ["symbolic_attractor_test", "compute_attractors_symbolic", "compute_attractor_candidates", "run_simulation_minification",
             "asp_greedy_retained_set_optimization", "expand_bfs/dfs/minimal_spaces/attractor_seeds/to_target/source_blocks/source_SCCs",
             "SuccessionDiagram.skip_to_minimal/skip_remaining/build", "succession_control"]
SINGLE = ["fullbfs", "fulldfs", "fmin", "faseeds", "block", "scc", "build", "target", "skiprem", "control"]
QUERY = ["seeds", "sets", "cands"]
PREFIX = [(), ("succ",), ("bfs",), ("fullbfs",), ("succ", "skiprem"), ("succ", "skip")]


def extra_vars(task, net):
    if task["params"].get("cfg"):
        return hist.declare_config()
    return [], []


def execute(rules, skeleton, H, names, params):
    cfg = hist.read_config(H, isinstance(H, hist.SymH)) if params.get("cfg") else None
    sd, trace = hist.run_history(rules, skeleton, H, names, attractors=False, config=cfg)
    return {"trace": trace}


def assertion(B, rules, skeleton, out, params):
    # termination is observed by the budget watchdog of the explorer; reaching this point means the calls returned
    return [("calls returned", B.const(True))]


def info(out):
    return {"ops": [(e["kind"], e["op"], e["rec"]["exc"]) for e in out["trace"]]}


def run_task(task):
    import checks.C13 as me
    if task["params"].get("mode") == "sanitize":
        # sanitize_network_names (the documented step before building a diagram from a network with unusual names) on
        # solver-chosen name tuples (checks/C17.py: sanitize_check); a call that does not return is a hang
        import ast
        import re
        import time
        from checks import C17
        t0 = time.time()
        classes, fails, exh = C17.sanitize_check(task["params"]["k"], task["params"]["L"], task["timebox"])
        hangs = []
        for f in fails:
            m = re.match(r"names (\[.*?\]): sanitize_network_names did not terminate", f)
            if m:
                hangs.append({"rules": "", "hist": {"names": ast.literal_eval(m.group(1))}})
        return {"label": task["label"], "classes": classes, "exhausted": exh, "violations": [], "inconclusive": [], "observations": classes,
                "samples": [], "queries": {"frontier": classes}, "z3_s": 0, "real_s": 0, "wall_s": time.time() - t0, "hangs": hangs[:3]}
    return histcheck.run_task(task, me)


def replay(rec):
    import checks.C13 as me
    if rec["params"].get("mode") == "sanitize":
        import biodivine_aeon as ba
        from biobalm.petri_net_translation import sanitize_network_names
        sanitize_network_names(ba.BooleanNetwork(list(rec["hist"]["names"])))       # returns, or the replay times out
        return {"reproduces": False, "failing": [], "signature": None}
    if rec["params"].get("selftest"):
        import time
        time.sleep(10 ** 6)
    r = histcheck.replay(rec, me)
    return {"reproduces": False, "failing": [], "signature": None}


def tasks(tier, seed, selftest=False):
    S = []
    q = tier == "quick"
    if selftest:
        return histcheck.mk_tasks(PROP, [dict(family="U2", skeleton=("selfhang",), timebox=60)], seed, True)
    for o in SINGLE:
        S.append(dict(family="U2", skeleton=(o,), timebox=60))
        S.append(dict(family="D3", skeleton=(o,), timebox=10 if q else 600))
    for p in PREFIX:
        for qy in QUERY:
            S.append(dict(family="U2", skeleton=tuple(p) + (qy,), timebox=10 if q else 600))
            S.append(dict(family="D3", skeleton=tuple(p) + (qy,), timebox=12 if q else 900))
    # every numeric configuration field symbolic (0..5 or default): thresholds select other loops (regeneration, greedy)
    for fam in ("U2", "D3", "N3"):
        for qy in ("cands", "seeds"):
            S.append(dict(family=fam, skeleton=(qy,), timebox=12 if q else 600, tag="cfg", params={"cfg": True}))
            S.append(dict(family=fam, skeleton=("succ", qy), timebox=10 if q else 600, tag="cfg", params={"cfg": True}))
    # inputs presented as free inputs (variables without update function)
    for qy in ("cands", "seeds", "sets", "build"):
        S.append(dict(family="D3", skeleton=(qy,), timebox=8 if q else 600, tag="free-inputs", params={"free_inputs": True}))
        S.append(dict(family="S1C2", skeleton=(qy,), timebox=8 if q else 600, tag="free-inputs", params={"free_inputs": True}))
    # four free variables: the simulation budget (1000 x variables) exceeds the first pass only from here on
    for fam in ("P:SW2+SW2", "B22"):
        for qy in ("seeds", "cands"):
            S.append(dict(family=fam, skeleton=(qy,), timebox=20 if q else 600))
            S.append(dict(family=fam, skeleton=("succ", qy), timebox=15 if q else 600))
    # fine mode: inside symbolic_attractor_test the path is class-constant, so "returned within the budget" holds
    # for every network of the class
    for p in ((), ("succ",), ("fullbfs",)):
        for qy in ("seeds", "sets"):
            S.append(dict(family="U2", skeleton=tuple(p) + (qy,), timebox=10 if q else 600, tag="fine", params={"fine": True}))
            S.append(dict(family="D3", skeleton=tuple(p) + (qy,), timebox=15 if q else 900, tag="fine", params={"fine": True}))
            # decision point: forward growth always declined by the size heuristic (the livelock's trigger), whatever the real sizes
            S.append(dict(family="D3", skeleton=tuple(p) + (qy,), timebox=12 if q else 600, tag="decline", params={"fine": True, "size_mode": "decline"}))
    # four variables with the growth decision forced (decline): progress then rests on the loop's own bookkeeping alone
    for fam in ("B22", "CH4", "R4"):
        for p in ((), ("fullbfs",)):
            S.append(dict(family=fam, skeleton=tuple(p) + ("seeds",), timebox=12 if q else 600, tag="decline", params={"fine": True, "size_mode": "decline"}))
    # name sanitisation: solver-chosen tuples of names that need sanitising and collide afterwards
    T_extra = [{"prop": PROP, "family": "-", "label": "sanitize/k=3", "timebox": 30 if q else 300, "seed": seed, "params": {"mode": "sanitize", "k": 3, "L": 1 if q else 2}},
               {"prop": PROP, "family": "-", "label": "sanitize/k=4", "timebox": 30 if q else 300, "seed": seed, "params": {"mode": "sanitize", "k": 4, "L": 1}}]
    # unrestricted 4-variable networks with the growth decision forced; several solver seeds (the shape that stalls a
    # weakened progress rule is rare: about 1 class in 10 000)
    for k in range(2 if q else 12):
        for p in ((), ("fullbfs",)):
            S.append(dict(family="U4", skeleton=tuple(p) + ("seeds",), timebox=10 if q else 600, tag=f"decline/s{k}", params={"fine": True, "size_mode": "decline", "solver_seed": k}))
    if not q:
        for qy in ("seeds", "sets"):
            S.append(dict(family="U3", skeleton=(qy,), timebox=600, cube_k=5, nbits=24))
            S.append(dict(family="U3", skeleton=("succ", qy), timebox=600, cube_k=5, nbits=24))
        for fam in ("B22", "CH4", "S2C2"):
            S.append(dict(family=fam, skeleton=("build",), timebox=300, cube_k=3, nbits=20))
    return histcheck.mk_tasks(PROP, S, seed) + T_extra


def main(tier, seed, t0, selftest=False):
    results = common.run_tasks(tasks(tier, seed, selftest))
    return common.finish(PROP, tier, seed, "model_checking", results, t0, selftest=selftest, hang_is_violation=True, functions=FUNCTIONS,
                         replay_timeout=60, max_replays=3,
                         bounds={"budget": "20 s CPU time (300 s wall backstop) per path-class representative (<= 4 variables); replay time-out 60 s wall",
                                 "operations": "single: " + ",".join(SINGLE) + "; queries " + ",".join(QUERY) + " on a symbolic node after prefixes " + str(PREFIX),
                                 "families": "U2, D3, P:SW2+SW2, B22 (quick, time-boxed); + U3 cubes, CH4, S2C2 (thorough)",
                                 "note": "termination inside the opaque attractor region is established per representative, not per class"},
                         assumptions=["a call that does not return within 20 s on a <= 4-variable network is treated as non-terminating (confirmed by a 60 s replay)"])
