"""Unit harness for space_utils.space_unique_key (used by C04): node identity rests on the key being an
*injective* function of the space, for networks of any size - the symbolic families stop at 4 variables, and
CPython hashes/compares word-sized and multi-limb integers differently, so the interesting region starts at
31 variables.

The function is translated from its *current source* (inspect.getsource -> ast) by a small symbolic
interpreter into z3 bit-vector terms: the space is symbolic (per variable: present? value 0/1), the loop over
`space.items()` is unrolled over the N variables under the presence guards, in index order and in reverse
order.  Python's `int` is unbounded, so every term carries a concrete upper bound and the translation is
refused (INCONCLUSIVE, never a pass) as soon as a value could exceed the encoding width 4N+72 bits - inside
that bound `+`, `*c`, `<< c`, `|`, `&`, `^`, `% c` on bit-vectors coincide with the Python operations.  The
builtin `hash(x)` of a non-negative int is `x mod (2**61 - 1)` (CPython's definition; validated concretely
below).  `network.find_variable(name)` is a contract stub returning the variable's index; statements or calls
outside this subset make the task INCONCLUSIVE.

Queries per N: (1) key(s1) == key(s2) and s1 != s2   -> unsat expected (injective);
               (2) key built in reverse item order differs -> unsat expected (independent of dict order);
               (3) reachability twin: key(s1) == key(s2) with s1 == s2 is sat; and the *mutated* source
                   (`2 * int(var)` -> `1 * int(var)`) must come back sat on query (1) - otherwise the
                   encoding is vacuous and the task is INCONCLUSIVE.
The translator is validated on every run by pushing concrete spaces (the repo's own test inputs' shape plus
pseudo-random ones) through the real function and through the model of the encoding.
A satisfying assignment of (1) is replayed on the real function with a real N-variable BooleanNetwork."""
from __future__ import annotations
import ast
import inspect
import random
import textwrap
import time
import z3

M61 = 2 ** 61 - 1


class Unenc(Exception):
    pass


W = {"w": 256}


class Val:
    """z3 bit-vector term of width W + concrete upper bound (the value is known to be in 0..hi): as long as every hi stays below
    2**W the bit-vector operations coincide with Python's unbounded-int operations (checked at every operation)"""
    __slots__ = ("t", "hi")

    def __init__(self, t, hi):
        if hi >= (1 << W["w"]):
            raise Unenc(f"value may exceed the {W['w']}-bit encoding width")
        self.t, self.hi = t, hi


def _c(x):
    if isinstance(x, Val):
        return x
    if isinstance(x, bool) or not isinstance(x, int) or x < 0:
        raise Unenc(f"constant {x!r}")
    return Val(z3.BitVecVal(x, W["w"]), x)


class Interp:
    """symbolic interpreter for the subset of Python the key function is written in; anything else raises Unenc"""

    def __init__(self, fn_src, order, present, value, tag):
        self.tree = ast.parse(textwrap.dedent(fn_src)).body[0]
        self.order, self.present, self.value, self.tag = order, present, value, tag

    def run(self):
        args = [a.arg for a in self.tree.args.args]
        if len(args) != 2:
            raise Unenc("signature")
        env = {args[0]: ("SPACE",), args[1]: ("NET",)}
        ret = self.block(self.tree.body, env, z3.BoolVal(True))
        if ret is None:
            raise Unenc("no return value")
        return ret

    def block(self, stmts, env, guard):
        for st in stmts:
            if isinstance(st, ast.Expr) and isinstance(st.value, ast.Constant):
                continue
            if isinstance(st, (ast.Assign, ast.AnnAssign)):
                tgt = st.targets[0] if isinstance(st, ast.Assign) else st.target
                if not isinstance(tgt, ast.Name) or st.value is None:
                    raise Unenc("assignment target")
                val = self.expr(st.value, env)
                if isinstance(val, int):
                    val = _c(val)
                self.assign(env, tgt.id, val, guard)
            elif isinstance(st, ast.AugAssign):
                if not isinstance(st.target, ast.Name):
                    raise Unenc("augassign target")
                cur = env[st.target.id]
                new = self.binop(st.op, cur, self.expr(st.value, env), slot=st.target.id)
                self.assign(env, st.target.id, new if isinstance(new, Val) else _c(new), guard)
            elif isinstance(st, ast.For):
                it = st.iter
                if not (isinstance(it, ast.Call) and isinstance(it.func, ast.Attribute) and it.func.attr == "items" and
                        env.get(getattr(it.func.value, "id", None)) == ("SPACE",) and isinstance(st.target, ast.Tuple) and
                        len(st.target.elts) == 2 and not st.orelse):
                    raise Unenc("loop shape")
                kn, vn = (e.id for e in st.target.elts)
                for i in self.order:
                    env[kn] = ("NAME", i)
                    env[vn] = Val(self.value[i], 1)
                    r = self.block(st.body, env, z3.And(guard, self.present[i]))
                    if r is not None:
                        raise Unenc("return inside loop")
            elif isinstance(st, ast.If):
                # only the 'unknown variable' guard: `if var is None: raise`; the stub never returns None
                t = st.test
                if (isinstance(t, ast.Compare) and isinstance(t.ops[0], ast.Is) and isinstance(t.comparators[0], ast.Constant) and
                        t.comparators[0].value is None and isinstance(t.left, ast.Name) and isinstance(env.get(t.left.id), tuple) and
                        env[t.left.id][0] == "VAR" and all(isinstance(b, ast.Raise) for b in st.body) and not st.orelse):
                    continue
                raise Unenc("if statement")
            elif isinstance(st, ast.Return):
                v = self.expr(st.value, env)
                v = _c(v) if isinstance(v, int) else v
                if not isinstance(v, Val):
                    raise Unenc("return of non-int")
                return v
            else:
                raise Unenc(type(st).__name__)
        return None

    def assign(self, env, name, new, guard):
        old = env.get(name)
        if isinstance(new, Val) and isinstance(old, Val) and not z3.is_true(guard):
            hi = max(old.hi, new.hi)
            env[name] = Val(z3.If(guard, new.t, old.t), hi)
        else:
            env[name] = new

    def expr(self, e, env):
        if isinstance(e, ast.Constant):
            if isinstance(e.value, bool) or not isinstance(e.value, int):
                raise Unenc(f"constant {e.value!r}")
            return e.value
        if isinstance(e, ast.Name):
            if e.id not in env:
                raise Unenc("name " + e.id)
            return env[e.id]
        if isinstance(e, ast.BinOp):
            return self.binop(e.op, self.expr(e.left, env), self.expr(e.right, env))
        if isinstance(e, ast.Call):
            f = e.func
            a = [self.expr(x, env) for x in e.args]
            if e.keywords:
                raise Unenc("keywords")
            if isinstance(f, ast.Name) and f.id == "int" and len(a) == 1:
                if isinstance(a[0], tuple) and a[0][0] == "VAR":
                    return a[0][1]                      # int(VariableId) = index  (stub contract)
                if isinstance(a[0], (Val, int)):
                    return a[0]
            if isinstance(f, ast.Name) and f.id == "hash" and len(a) == 1 and isinstance(a[0], (Val, int)):
                v = _c(a[0])
                return Val(z3.URem(v.t, z3.BitVecVal(M61, W['w'])), min(v.hi, M61 - 1))  # CPython: hash(non-negative int x) = x mod (2**61-1)
            if isinstance(f, ast.Attribute) and f.attr == "find_variable" and self.expr(f.value, env) == ("NET",) and len(a) == 1 and \
                    isinstance(a[0], tuple) and a[0][0] == "NAME":
                return ("VAR", a[0][1])
            if isinstance(f, ast.Attribute) and f.attr == "index" and not a:
                o = self.expr(f.value, env)
                if isinstance(o, tuple) and o[0] == "VAR":
                    return o[1]
            raise Unenc("call " + ast.unparse(e))
        raise Unenc("expression " + ast.unparse(e))

    def binop(self, op, a, b, slot=None):
        if isinstance(a, int) and isinstance(b, int) and not isinstance(a, bool):
            try:
                return {ast.Add: a + b, ast.Sub: a - b, ast.Mult: a * b, ast.LShift: a << b, ast.BitOr: a | b, ast.Mod: a % b if b else None,
                        ast.FloorDiv: a // b if b else None, ast.BitAnd: a & b, ast.BitXor: a ^ b, ast.RShift: a >> b}[type(op)]
            except KeyError:
                raise Unenc("operator")
        if not isinstance(a, (Val, int)) or not isinstance(b, (Val, int)):
            raise Unenc("operand")
        if isinstance(op, ast.LShift) and isinstance(b, int) and 0 <= b <= 4096:
            a = _c(a)
            return Val(a.t << b, a.hi << b)
        if isinstance(op, ast.Mult) and (isinstance(a, int) or isinstance(b, int)):
            k, x = (a, b) if isinstance(a, int) else (b, a)
            if k < 0:
                raise Unenc("negative factor")
            return Val(x.t * z3.BitVecVal(k, W["w"]), x.hi * k)
        a, b = _c(a), _c(b)
        if isinstance(op, ast.Add):
            return Val(a.t + b.t, a.hi + b.hi)
        if isinstance(op, ast.Mod) and z3.is_bv_value(b.t) and b.hi > 0:
            return Val(z3.URem(a.t, b.t), min(a.hi, b.hi - 1))
        if isinstance(op, (ast.BitOr, ast.BitXor)):
            hi = (1 << max(a.hi.bit_length(), b.hi.bit_length())) - 1
            return Val(a.t | b.t if isinstance(op, ast.BitOr) else a.t ^ b.t, hi)
        if isinstance(op, ast.BitAnd):
            return Val(a.t & b.t, min(a.hi, b.hi))
        raise Unenc("operator " + type(op).__name__)


def get_source():
    import biobalm.space_utils as su
    return inspect.getsource(su.space_unique_key)


def encode(src, N, tag, order):
    P = [z3.Bool(f"p{tag}_{i}") for i in range(N)]
    W["w"] = 4 * N + 72
    V = [z3.BitVec(f"v{tag}_{i}", W["w"]) for i in range(N)]
    dom = [z3.ULE(v, 1) for v in V]
    key = Interp(src, order, P, V, tag).run()
    return P, V, dom, key.t


def real_network(N):
    from biodivine_aeon import BooleanNetwork
    names = [f"x{i:03d}" for i in range(N)]
    bn = BooleanNetwork(names)
    return names, bn


def space_of(m, P, V, names):
    return {names[i]: m.eval(V[i], model_completion=True).as_long() for i in range(len(P)) if z3.is_true(m.eval(P[i], model_completion=True))}


def validate_translator(src, N, seed):
    """concrete spaces through the real function and through the encoding; returns number compared or raises"""
    from biobalm.space_utils import space_unique_key
    names, bn = real_network(N)
    P, V, dom, key = encode(src, N, "t", list(range(N)))
    rnd = random.Random(seed)
    k = 0
    spaces = [{}, {names[0]: 0}, {names[0]: 1}, {names[-1]: 1}, {n: 1 for n in names}, {n: 0 for n in names}]
    spaces += [{n: rnd.randint(0, 1) for n in names if rnd.random() < 0.5} for _ in range(20)]
    for sp in spaces:
        sub = [(P[i], z3.BoolVal(names[i] in sp)) for i in range(N)] + [(V[i], z3.BitVecVal(sp.get(names[i], 0), W['w'])) for i in range(N)]
        got = z3.simplify(z3.substitute(key, *sub))
        want = space_unique_key(sp, bn)
        if not (z3.is_bv_value(got) and got.as_long() == want):
            raise Unenc(f"translator validation failed on {sp}: encoding {got} vs real {want}")
        k += 1
    return k


def decide(N, timebox, seed, selftest=False):
    t0 = time.time()
    src = get_source()
    out = {"N": N, "queries": {}, "cex": [], "inconclusive": None, "validated": 0}
    try:
        out["validated"] = validate_translator(src, N, seed)
        P1, V1, d1, k1 = encode(src, N, "a", list(range(N)))
        P2, V2, d2, k2 = encode(src, N, "b", list(range(N)))
        _, _, _, k1r = encode(src, N, "a", list(range(N))[::-1])
    except Unenc as e:
        out["inconclusive"] = f"space_unique_key is not encodable by the translator: {e}"
        return out
    differ = z3.Or([z3.Or(P1[i] != P2[i], z3.And(P1[i], V1[i] != V2[i])) for i in range(N)])

    def q(name, *fs):
        s = z3.Solver()
        s.set("timeout", int(max(5, timebox - (time.time() - t0)) * 1000))
        s.set("random_seed", seed % 1000)
        s.add(*d1, *d2, *fs)
        r = s.check()
        out["queries"][name] = str(r)
        return r, s
    r, s = q("reach_twin", k1 == k2, z3.Not(differ))
    if r != z3.sat:
        out["inconclusive"] = "reachability twin is not sat"
        return out
    mut = src.replace("2 * int(var)", "1 * int(var)")
    if mut != src:
        try:
            Pm1, Vm1, dm1, km1 = encode(mut, N, "a", list(range(N)))
            Pm2, Vm2, dm2, km2 = encode(mut, N, "b", list(range(N)))
            r, s = q("mutant_twin", km1 == km2, differ)
            if r != z3.sat:
                out["inconclusive"] = "the mutated twin (offset 1*index) is not reported as colliding: encoding is vacuous"
                return out
        except Unenc as e:
            out["inconclusive"] = f"mutated twin not encodable: {e}"
            return out
    r, s = q("order_independent", k1 != k1r)
    if r == z3.sat:
        m = s.model()
        out["cex"].append({"kind": "order", "N": N, "s1": space_of(m, P1, V1, real_network(N)[0])})
    elif r != z3.unsat:
        out["inconclusive"] = "order query: unknown"
    r, s = q("injective", k1 == k2, differ, *([z3.BoolVal(True)] if not selftest else []))
    if selftest:
        r, s = q("injective", z3.Not(differ))
    if r == z3.sat:
        m = s.model()
        names = real_network(N)[0]
        out["cex"].append({"kind": "collision", "N": N, "s1": space_of(m, P1, V1, names), "s2": space_of(m, P2, V2, names)})
    elif r != z3.unsat:
        out["inconclusive"] = "injectivity query: unknown (time box)"
    out["z3_s"] = time.time() - t0
    return out


def replay_key(cex):
    from biobalm.space_utils import space_unique_key
    names, bn = real_network(cex["N"])
    if cex["kind"] == "order":
        a = space_unique_key(cex["s1"], bn)
        b = space_unique_key(dict(reversed(list(cex["s1"].items()))), bn)
        return (a != b), f"space_unique_key depends on the item order of the space: {a} vs {b}"
    a, b = space_unique_key(cex["s1"], bn), space_unique_key(cex["s2"], bn)
    return (a == b and cex["s1"] != cex["s2"]), f"two different spaces of a {cex['N']}-variable network get the same key {a}: {cex['s1']} / {cex['s2']}"


def run_task(task):
    t0 = time.time()
    # the solver budget is fixed per tier and NOT the task's time box: common.fit_budget scales time boxes to the wall budget, and
    # a scaled-down box would turn a query that needs ~2 min (N=96) into `unknown` = INCONCLUSIVE
    r = decide(task["params"]["N"], float(task["params"].get("budget", task["timebox"])), task.get("seed", 0), selftest=bool(task["params"].get("selftest")))
    inconcl = [{"reason": "key unit: " + r["inconclusive"]}] if r["inconclusive"] else []
    viol = [{"rules": "", "hist": {}, "kind": "class", "info": {"key": c}} for c in r["cex"]]
    nq = len(r["queries"])
    return {"label": task["label"], "classes": nq, "exhausted": not inconcl, "violations": viol, "inconclusive": inconcl,
            "observations": nq + r["validated"], "samples": [{"N": r["N"], "queries": r["queries"], "translator_validated_on": r["validated"]}],
            "queries": {"key_unit_" + k: 1 for k in r["queries"]}, "z3_s": r.get("z3_s", 0), "real_s": 0, "wall_s": time.time() - t0, "hangs": []}


def replay(rec):
    if rec["params"].get("selftest"):
        return {"reproduces": True, "failing": ["selftest"], "signature": None}
    ok, msg = replay_key(rec["info"]["key"])
    return {"reproduces": bool(ok), "failing": [msg] if ok else [], "signature": {"site": "space_unique_key"} if ok else None}
