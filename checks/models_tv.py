"""Per-model translation validation on the published models (5-321 variables): z3 decides over ALL subspaces that the
minimal trap spaces a complete expansion strategy reports are EXACTLY the inclusion-minimal trap spaces of the model.

Trap spaces are characterised propositionally over the model's Petri net (two places per variable; a subspace = the set
of allowed places; closed iff every transition whose pre-set is allowed has its produced place allowed) - the standard
siphon characterisation.  The Petri net is the library's own network_to_petrinet output, which C10 validates for every
one of these models against the update functions over all states; given that, the three queries below are exact:

  closed(T)            for every reported T                                   (evaluation)
  no trap space M with M < T                                                  (z3: unsat)      -> T is minimal
  no trap space M that contains none of the reported T                        (z3: unsat)      -> none is missing
"""
from __future__ import annotations
import os
import sys
import time
import z3


def pn_transitions(pn):
    out = []
    for t, data in pn.nodes(data=True):
        if data.get("kind") != "transition":
            continue
        pre = {}
        for p in pn.predecessors(t):
            pre[p[3:]] = 1 if p.startswith("b1_") else 0
        out.append((pre, data["change"], 1 if data["direction"] == "up" else 0))
    return out


def exactness(names, transitions, reported, label, timeout_ms=120000):
    """reported: list of dict name->0/1 (fixed variables).  returns (queries, fails)"""
    A = {(nm, b): z3.Bool(f"al_{nm}_{b}") for nm in names for b in (0, 1)}
    closed = [z3.Or(A[(nm, 0)], A[(nm, 1)]) for nm in names]
    for pre, ch, b in transitions:
        closed.append(z3.Implies(z3.And([A[(k, v)] for k, v in pre.items()]), A[(ch, b)]))
    fails, q = [], 0

    def allowed(T, nm, b):
        return T.get(nm, b) == b
    # every reported space is closed (evaluation of the same clauses)
    for T in reported:
        for pre, ch, b in transitions:
            if all(allowed(T, k, v) for k, v in pre.items()) and not allowed(T, ch, b):
                fails.append(f"{label}: reported minimal trap space {dict(list(T.items())[:6])}.. is not closed (transition on {ch})")
                break
    s = z3.Solver()
    s.set("timeout", timeout_ms)
    s.add(closed)
    # nothing missing: a trap space that contains none of the reported ones
    s.push()
    for T in reported:
        s.add(z3.Not(z3.And([A[(nm, b)] for nm in names for b in (0, 1) if allowed(T, nm, b)])))
    r = s.check()
    q += 1
    if r == z3.sat:
        m = s.model()
        M = {nm: [b for b in (0, 1) if z3.is_true(m.eval(A[(nm, b)], model_completion=True))] for nm in names}
        fails.append(f"{label}: a trap space contains none of the reported minimal trap spaces (one is missing): fixed part " + str({k: v[0] for k, v in list(M.items()) if len(v) == 1})[:300])
    elif r != z3.unsat:
        fails.append(f"{label}: unknown (completeness)")
    s.pop()
    # minimality of each reported one
    for T in reported:
        s.push()
        s.add([z3.Not(A[(nm, 1 - b)]) for nm, b in T.items()])                 # M inside T
        free = [nm for nm in names if nm not in T]
        s.add(z3.Or([z3.Not(A[(nm, b)]) for nm in free for b in (0, 1)]) if free else z3.BoolVal(False))   # M != T
        r = s.check()
        q += 1
        s.pop()
        if r == z3.sat:
            fails.append(f"{label}: reported minimal trap space {dict(list(T.items())[:6])}.. contains a smaller trap space (spurious)")
        elif r != z3.unsat:
            fails.append(f"{label}: unknown (minimality)")
    if len({tuple(sorted(T.items())) for T in reported}) != len(reported):
        fails.append(f"{label}: a minimal trap space is reported twice")
    return q, fails


STRATS = {
    "min": lambda sd: sd.expand_minimal_spaces(size_limit=400),
    "bfs": lambda sd: sd.expand_bfs(size_limit=150),
    "dfs": lambda sd: sd.expand_dfs(size_limit=150),
    "block": lambda sd: sd.expand_block(find_motif_avoidant_attractors=False, size_limit=400),
    "scc": lambda sd: sd.expand_scc(find_motif_avoidant_attractors=False),
    "aseeds": lambda sd: sd.expand_attractor_seeds(size_limit=400),
}


def check_model(path, strat, selftest=False):
    import biobalm
    sys.setrecursionlimit(60000)
    text = open(path).read()
    label = os.path.basename(path) + "/" + strat
    sd = biobalm.SuccessionDiagram.from_rules(text)
    names = list(sd.network.variable_names())
    try:
        complete = STRATS[strat](sd)
    except RuntimeError as e:
        if "Exceeded the maximum" in str(e):
            return {"complete": False, "queries": 0}, []       # a documented resource limit: nothing reported
        return {"complete": True, "variables": len(names), "queries": 0}, [f"{label}: the strategy raised RuntimeError: {str(e)[:120]}"]
    except Exception as e:
        # a complete strategy with default settings must report completion, not crash (the library's own assertions included)
        return {"complete": True, "variables": len(names), "queries": 0}, [f"{label}: the strategy raised {type(e).__name__}: {str(e)[:120]}"]
    if complete is not True:
        return {"complete": False, "queries": 0}, []          # stopped at its size limit: nothing reported as complete
    reported = [dict(sd.node_data(i)["space"]) for i in sd.minimal_trap_spaces()]
    q, fails = exactness(names, pn_transitions(sd.petri_net), reported, label)
    if selftest:
        fails.append(label + ": selftest")
    return {"complete": True, "variables": len(names), "nodes": len(sd), "minimal_trap_spaces": len(reported), "queries": q}, fails


def run_task(task):
    t0 = time.time()
    try:
        fd = os.open(os.path.join(os.path.dirname(os.path.dirname(os.path.abspath(__file__))), "scratch", "worker_stderr.log"), os.O_WRONLY | os.O_CREAT | os.O_APPEND)
        os.dup2(fd, 2)
    except OSError:
        pass
    viol, inconc, samples = [], [], []
    q = n = skipped = 0
    for p in task["params"]["models"]:
        for strat in task["params"]["strats"]:
            if time.time() - t0 > task.get("timebox", 60) * 4:
                skipped += 1
                continue
            try:
                info, fails = check_model(p, strat, selftest=bool(task["params"].get("selftest")))
            except Exception as e:
                inconc.append({"reason": f"model {os.path.basename(p)}/{strat}: {type(e).__name__}: {e}"[:300]})
                continue
            if not info.get("complete"):
                skipped += 1
                continue
            n += 1
            q += info.get("queries", 0)
            if len(samples) < 2:
                samples.append({"model": os.path.basename(p), "strategy": strat, **info})
            for f in fails[:2]:
                if "unknown" in f:
                    inconc.append({"reason": f})
                else:
                    viol.append({"rules": "", "hist": {}, "kind": "model", "info": {"model": p, "strat": strat, "fail": f}})
    return {"label": task["label"], "classes": n, "exhausted": True, "violations": viol[:6], "inconclusive": inconc[:3], "observations": q,
            "samples": samples, "queries": {"model_queries": q, "model_runs_incomplete_or_skipped": skipped}, "z3_s": 0, "real_s": time.time() - t0,
            "wall_s": time.time() - t0, "hangs": []}


def replay(rec):
    info, fails = check_model(rec["info"]["model"], rec["info"]["strat"], selftest=bool(rec["params"].get("selftest")))
    return {"reproduces": bool(fails), "failing": fails[:4], "signature": None}
