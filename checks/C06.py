"""C06 — see checks/control_common.py (assertion_c06)."""
from __future__ import annotations
from checks import common, control_common as cc

PROP = "C06"
FUNCTIONS = ["control.succession_control", "control.successions_to_target", "control.drivers_of_succession", "control.find_drivers",
             "control.Intervention", "expand_to_target", "space_utils.intersect/is_subspace"]


def run_task(task):
    if task["params"].get("mode") == "models":
        from checks import c06_models
        return c06_models.run_task(task)
    return cc.run_task(task, PROP, PROP)


def replay(rec):
    if rec["params"].get("mode") == "models":
        from checks import c06_models
        return c06_models.replay(rec)
    return cc.replay(rec, PROP)


def tasks(tier, seed, selftest=False):
    T = []
    q = tier == "quick"
    prefixes = cc.PREFIXES if PROP == "C06" else [()]

    def add(fam, prefix, box, strat=None, cube_k=0, nbits=0, free=False):
        base = {"prop": PROP, "family": fam, "label": f"{fam}/{'+'.join(prefix) or 'fresh'}/{'all' if strat else 'internal' if strat is not None else 'both'}" + ("/free-inputs" if free else ""),
                "timebox": box, "seed": seed, "params": {"prefix": list(prefix), "selftest": selftest, "fix_strategy": strat, "free_inputs": free}}
        if cube_k:
            for cube in common.cubes(nbits, cube_k):
                T.append(dict(base, cube=cube))
        else:
            T.append(base)
    if selftest:
        add("U2", (), 60)
        return T
    for p in prefixes:
        for strat in (0, 1):
            add("U2", p, (40 if q else 1200), strat)
            add("D3", p, (25 if q else 1200), strat)
    for strat in (0, 1):
        add("P:SW2+SW2", (), 30 if q else 900, strat)
        # minimal driver sets of different sizes that share a variable ({a,b} and {a,c,d} both force the all-ones motif)
        add("DRV4", (), 20 if q else 900, strat)
    for strat in (0, 1):
        add("S1C2", (), 15 if q else 600, strat, free=True)      # the source presented as a free input (no update function)
    if q:
        for strat in (0, 1):
            add("S1C2", (), 20, strat)
    else:
        for strat in (0, 1):
            for fam in ("S1C2", "B21"):
                add(fam, (), 900, strat)
            add("U3", (), 600, strat, cube_k=4, nbits=24)
    # published models: successful interventions towards minimal trap spaces of the model, decided by z3
    # (checks/c06_models.py)
    import glob
    import os
    mdir = os.path.join(os.environ.get("VERIF_REPO", "/repo"), "models/bbm-bnet-inputs-true")
    paths = sorted(glob.glob(os.path.join(mdir, "*.bnet")), key=os.path.getsize)
    paths = paths[:120] if q else paths
    for i in range(0, len(paths), 10 if q else 3):
        T.append({"prop": PROP, "family": "-", "label": "models/control", "timebox": 20 if q else 200, "seed": seed,
                  "params": {"mode": "models", "models": paths[i:i + (10 if q else 3)], "cap_s": 30 if q else 150}})
    return T


def main(tier, seed, t0, selftest=False):
    results = common.run_tasks(tasks(tier, seed, selftest))
    return common.finish(PROP, tier, seed, "model_checking", results, t0, selftest=selftest, functions=FUNCTIONS,
                         bounds={"symbolic": "network, target (any non-empty subspace), strategy, max_drivers_per_succession_node in None/0..n, forbidden set (any subset), skip_feedforward_successions" + ("; prefix histories " + str(cc.PREFIXES) if PROP == "C06" else "; fresh diagram"),
                                 "families": "U2, D3 (+S1C2 with a source variable) time-boxed; thorough adds B21 and U3 cubes",
                                 "published models": "120 smallest models (quick) / all 210 (thorough): successful interventions (both strategies; strategy all with at most 1 driver per step) towards the first two minimal trap spaces: motif chain nested and closed (validated Petri net), every listed override's domain of influence contains the motif (z3 least fixed point over all states), final trap space consistent with the target and all minimal trap spaces inside it (enumerated by z3) inside the target; the attractor-reachability clause is not decided on these models",
                                 "semantics": "overridden network = update functions of the override's variables replaced by constants; REACH/ATTR of that network by repeated squaring over the symbolic truth table"},
                         assumptions=["AEON Percolation.percolate_subspace = PERC (every answer is an observation checked on the representative)",
                                      "contract stubs of DESIGN.md §8"])
