"""C11 — percolation computes exactly the logical domain of influence.
E-CAB: (a) real percolate_space on every (symbolic) subspace: the AEON answer is an observation against the
least-fixed-point definition PERC and z3 decides idempotence / trap-space preservation for the class;
(b) fine mode: the real hand-written percolate_space_strict, function_eval, find_single_node_LDOIs and
find_single_drivers run on update-function handles that carry a symbolic denotation (is_true / is_false /
r_restrict are observations over the truth table); z3 decides their answers against the definition."""
from __future__ import annotations
import itertools
import z3
from engine import specs, symnet
from engine.symnet import refines, in_space
from engine.cab import CTX, SymInt, explore
from engine.ref import ConcreteNet
from checks import common

PROP = "C11"
FUNCTIONS = ["space_utils.percolate_space", "space_utils.percolate_space_strict", "symbolic_utils.function_eval",
             "drivers.find_single_node_LDOIs", "drivers.find_single_drivers"]


def t_of(names, d):
    return tuple((int(d[nm]) if nm in d else None) for nm in names)


def execute(rules, S, names):
    from biodivine_aeon import AsynchronousGraph, BooleanNetwork
    import biobalm.succession_diagram as SDM
    from biobalm.space_utils import percolate_space_strict
    percolate_space = SDM.percolate_space     # (the name the callers use; an oracle under the explorer)
    from biobalm.symbolic_utils import function_eval
    from biobalm.drivers import find_single_node_LDOIs, find_single_drivers
    bn = SDM.cleanup_network(SDM.BooleanNetwork.from_bnet(rules))
    g = SDM.AsynchronousGraph(bn)
    sd = {nm: s for nm, s in zip(names, S) if s is not None}
    out = {"S": S}
    out["perc"] = t_of(names, percolate_space(g, dict(sd)))
    out["strict"] = t_of(names, percolate_space_strict(g, dict(sd)))
    out["feval"] = [function_eval(g.mk_update_function(nm), dict(sd)) for nm in names]
    ld = find_single_node_LDOIs(g)
    out["ldoi"] = {(names.index(k[0]), int(k[1])): t_of(names, v) for k, v in ld.items()}
    out["drivers"] = sorted((names.index(k[0]), int(k[1])) for k in find_single_drivers(dict(sd), g, ld))
    # the same queries through a BooleanNetwork OBJECT that was used for a different network before and then edited in
    # place (set_update_function): the answers must be those of the network the object holds NOW
    from engine import oracles
    from engine.cab import CTX
    BN = oracles.REAL.get("BooleanNetwork", BooleanNetwork)
    cur = BN.from_bnet(rules).infer_valid_graph()
    vs = list(cur.variable_names())
    CTX.opaque += 1
    try:
        o = BN(vs)
        for a in vs:
            for b in vs:
                o.add_regulation({"source": a, "target": b, "essential": False, "sign": None})
        for a in vs:
            o.set_update_function(a, a)                    # first life of the object: every variable an input
        find_single_node_LDOIs(o)
        find_single_drivers({vs[0]: 1}, o)
        for a in vs:
            o.set_update_function(a, str(cur.get_update_function(a)))      # edited in place: now the current network
        ld2 = find_single_node_LDOIs(o)
        out["ldoi_edited_object"] = {(names.index(k[0]), int(k[1])): t_of(names, v) for k, v in ld2.items()}
        out["drivers_edited_object"] = sorted((names.index(k[0]), int(k[1])) for k in find_single_drivers(dict(sd), o))
    except Exception as e:
        out["ldoi_edited_object"] = "raised " + type(e).__name__ + ": " + str(e)[:100]
        out["drivers_edited_object"] = None
    finally:
        CTX.opaque -= 1
    return out


def strict_final(B, S, R):
    """R is the final restriction of strict propagation from S: only variables with non-constant update
    functions propagate; given values are kept"""
    n = B.n
    E = (None,) * n
    if not refines(R, S):
        return B.const(False)
    nonconst = lambda v: B.And(B.Not(B.const_on(v, 0, E)), B.Not(B.const_on(v, 1, E)))
    closed = [B.Not(B.And(nonconst(v), B.const_on(v, b, R))) for v in range(n) if R[v] is None for b in (0, 1)]
    new = [v for v in range(n) if S[v] is None and R[v] is not None]
    alts = []
    for perm in itertools.permutations(new):
        cur = list(S)
        cs = []
        for v in perm:
            cs.append(B.And(nonconst(v), B.const_on(v, R[v], tuple(cur))))
            cur[v] = R[v]
        alts.append(B.And(cs))
    return B.And(closed + ([B.Or(alts)] if new else []))


def strict_result_spec(B, S):
    """dict (v,b) -> formula 'v:b is in the answer of percolate_space_strict(S)'"""
    n = B.n
    E = (None,) * n
    out = {}
    Rs = [R for R in B.subspaces if refines(R, S)]
    for v in range(n):
        nonconst = B.And(B.Not(B.const_on(v, 0, E)), B.Not(B.const_on(v, 1, E)))
        for b in (0, 1):
            if S[v] is not None and S[v] != b:
                out[v, b] = B.const(False)
                continue
            out[v, b] = B.Or([B.And(strict_final(B, S, R), nonconst, B.const_on(v, b, R)) for R in Rs])
    return out


def assertion(B, out):
    parts = []
    S, R = out["S"], out["perc"]
    n = B.n
    E = (None,) * n
    parts.append(("percolate_space keeps the given values", B.const(refines(R, S))))
    parts.append(("percolate_space = least fixed point of value propagation", B.perc_eq(S, R)))
    parts.append(("percolation is idempotent", B.perc_eq(R, R)))
    parts.append(("percolating a trap space gives a trap space inside it", B.Implies(B.trap(S), B.trap(R))))
    spec = strict_result_spec(B, S)
    got = out["strict"]
    for (v, b), f in spec.items():
        parts.append((f"strict percolation reports {B.names[v]}={b} iff the definition does", B.Iff(f, B.const(got[v] == b))))
    for v in range(n):
        fe = out["feval"][v]
        parts.append((f"function_eval of {B.names[v]} on the space", B.And(B.Iff(B.const_on(v, 1, S), B.const(fe == 1)), B.Iff(B.const_on(v, 0, S), B.const(fe == 0)))))
    # single-node LDOIs: keys = both values of every variable with a non-constant function; values = strict percolation
    for v in range(n):
        nonconst = B.And(B.Not(B.const_on(v, 0, E)), B.Not(B.const_on(v, 1, E)))
        for b in (0, 1):
            parts.append((f"LDOI table has key ({B.names[v]},{b}) iff the function is not constant", B.Iff(nonconst, B.const((v, b) in out["ldoi"]))))
            if (v, b) in out["ldoi"]:
                Sv = tuple(b if i == v else None for i in range(n))
                sp = strict_result_spec(B, Sv)
                val = out["ldoi"][v, b]
                for (u, c), f in sp.items():
                    parts.append((f"LDOI({B.names[v]}={b}) contains {B.names[u]}={c} iff strict percolation does", B.Iff(f, B.const(val[u] == c))))
    if "ldoi_edited_object" in out:
        parts.append((f"LDOI table through a network object that was edited in place equals the table of the current network ({str(out['ldoi_edited_object'])[:80]})",
                      B.const(out["ldoi_edited_object"] == out["ldoi"])))
        parts.append(("single drivers through the edited network object equal those of the current network", B.const(out["drivers_edited_object"] == out["drivers"])))
    want = sorted(k for k, val in out["ldoi"].items() if all(S[i] is None or val[i] == S[i] or (k == (i, S[i])) for i in range(n)))
    parts.append(("single drivers = keys whose LDOI (plus the key) contains the target", B.const(want == out["drivers"])))
    return parts


def run_task(task):
    if task["params"].get("mode") == "models":
        from checks import c11_models
        return c11_models.run_task(task)
    from engine import oracles
    oracles.install()
    net = symnet.family(task["family"])
    ts = [z3.Int(f"s{i}") for i in range(net.n)]
    cs = []
    for t in ts:
        cs += [t >= -1, t <= 1]
    selftest = task["params"].get("selftest")

    def harness(ctx, rules):
        S = tuple((None if (v := SymInt(t).concrete()) < 0 else v) for t in ts)
        out = execute(rules, S, net.names)
        parts = assertion(net, out)
        if selftest:
            parts.append(("selftest", net.FALSE))
        return specs.conj(net, parts), {"S": S, "perc": out["perc"], "strict": out["strict"]}
    cube = [net.bits[i] if v else z3.Not(net.bits[i]) for i, v in task.get("cube", [])]
    res = explore(net, harness, extra_vars=ts, extra_constraints=cs, cube=cube, timebox=task["timebox"], seed=task.get("seed", 0), label=task["label"],
                  start_at=task.get("start_at"), max_classes=task.get("max_classes"))
    res["violations"] = res["violations"][:4] + [{"rules": v["rules"], "hist": v["hist"], "kind": v["kind"]} for v in res["violations"][4:40]]
    return res


def replay(rec):
    if rec["params"].get("mode") == "models":
        from checks import c11_models
        return c11_models.replay(rec)
    B = ConcreteNet.from_bnet(rec["rules"])
    S = tuple((None if rec["hist"].get(f"s{i}", -1) < 0 else int(rec["hist"][f"s{i}"])) for i in range(B.n))
    out = execute(rec["rules"], S, B.names)
    parts = assertion(B, out)
    if rec["params"].get("selftest"):
        parts.append(("selftest", False))
    failing = specs.failing_parts(B, parts)
    return {"reproduces": bool(failing), "failing": failing[:6], "signature": None}


def tasks(tier, seed, selftest=False):
    T = []
    q = tier == "quick"
    T.append({"prop": PROP, "family": "U2", "label": "U2", "timebox": 120, "seed": seed, "params": {"selftest": selftest}})
    if selftest:
        return T
    for cube in common.cubes(24, 4 if q else 6):
        T.append({"prop": PROP, "family": "U3", "label": "U3", "timebox": 40 if q else 900, "seed": seed, "cube": cube, "params": {}})
    # published models: percolate_space / percolate_space_strict against the least fixed point computed by z3 over all
    # states (checks/c11_models.py)
    import glob
    import os
    mdir = os.path.join(os.environ.get("VERIF_REPO", "/repo"), "models/bbm-bnet-inputs-true")
    paths = sorted(glob.glob(os.path.join(mdir, "*.bnet")), key=os.path.getsize)
    small, mid, large = paths[:120], paths[120:180], paths[180:]
    for i in range(0, len(small), 12):
        T.append({"prop": PROP, "family": "-", "label": "models/small", "timebox": 15, "seed": seed, "params": {"mode": "models", "models": small[i:i + 12], "nspaces": 4 if q else 6}})
    for i in range(0, len(mid), 4):
        T.append({"prop": PROP, "family": "-", "label": "models/medium", "timebox": 20, "seed": seed, "params": {"mode": "models", "models": mid[i:i + 4], "nspaces": 2 if q else 6}})
    if not q:
        for pth in large:
            T.append({"prop": PROP, "family": "-", "label": "models/large", "timebox": 120, "seed": seed, "params": {"mode": "models", "models": [pth], "nspaces": 4}})
    return T


def main(tier, seed, t0, selftest=False):
    results = common.run_tasks(tasks(tier, seed, selftest))
    return common.finish(PROP, tier, seed, "model_checking", results, t0, selftest=selftest, functions=FUNCTIONS,
                         bounds={"families": "U2 exhaustive (all 9 subspaces, symbolic); U3 cubes time-boxed (quick) / long (thorough), all 27 subspaces symbolic",
                                 "fine mode": "update-function BDD handles carry (variable, restriction space); is_true/is_false/r_restrict are observations over the symbolic truth table",
                                 "published models": "120 smallest models x 15 spaces, 60 medium models x 9 spaces (quick); all 210 models (thorough): percolate_space and percolate_space_strict equal the least fixed point computed by z3 constant-tests over all states (empty space, node spaces, single-variable spaces of both polarities, multi-variable spaces some of which conflict with the dynamics)",
                                 "outside": "n > 3 for LDOI tables / drivers / function_eval (symbolic families only); percolation_conflicts (not named by the property)"},
                         assumptions=["AEON Percolation.percolate_subspace: its answer is an observation checked against PERC on the representative (not class-generalised beyond the observed value)",
                                      "AEON BDD r_restrict/is_true/is_false have truth-table semantics (checked on the representative at every call)"])
