"""C10 — Petri-net encoding and network reduction preserve the asynchronous dynamics.
(a) network_to_petrinet: per update function, z3 decides over ALL states that the disjunction of the emitted
    up/down implicants equals f&!x / !f&x  (every function of the 215 repository models + every function of
    <= 3 inputs; the function text is parsed by an independent parser).                        [E-TV]
(b) restrict_petrinet_to_subspace: lifted over the generic net G_n: for ALL nets (presence Booleans), ALL
    subspaces and ALL states of the subspace z3 decides that the restricted net has exactly the free
    variables' places and enables a transition iff the original net does; and that restricting twice equals
    restricting once by the union.                                                              [E-LIFT]
(c) percolate_network: per model and node space, z3 decides over all states of the space that every
    remaining function agrees with the original one and that exactly the non-percolated variables remain. [E-TV]"""
from __future__ import annotations
import glob
import itertools
import json
import multiprocessing as mp
import os
import re
import time
import z3

from checks import common
from lift.generic import base_net, add_tr, shapes as mk_shapes, enabled, NAMES

PROP = "C10"
MODELS = os.path.join(os.environ.get("VERIF_REPO", "/repo"), "models/bbm-bnet-inputs-true")
FUNCTIONS = ["petri_net_translation.network_to_petrinet", "petri_net_translation.optimized_recursive_dnf_generator",
             "petri_net_translation._create_transitions", "petri_net_translation.restrict_petrinet_to_subspace",
             "space_utils.percolate_network", "space_utils.restrict_expression"]


# ----------------------------------------------------------------------------- independent expression parser
TOK = re.compile(r"\s*(!|&|\||\(|\)|[A-Za-z0-9_]+)")


def parse_expr(text, var):
    """recursive descent for  | & ! ( ) identifiers true false   ->  z3 formula; var(name) -> z3 Bool"""
    toks = TOK.findall(text)
    if "".join(toks) != re.sub(r"\s+", "", text):
        raise ValueError("cannot tokenise: " + text)
    pos = [0]

    def peek():
        return toks[pos[0]] if pos[0] < len(toks) else None

    def eat():
        pos[0] += 1
        return toks[pos[0] - 1]

    def p_or():
        xs = [p_and()]
        while peek() == "|":
            eat()
            xs.append(p_and())
        return xs[0] if len(xs) == 1 else z3.Or(xs)

    def p_and():
        xs = [p_not()]
        while peek() == "&":
            eat()
            xs.append(p_not())
        return xs[0] if len(xs) == 1 else z3.And(xs)

    def p_not():
        if peek() == "!":
            eat()
            return z3.Not(p_not())
        if peek() == "(":
            eat()
            e = p_or()
            if eat() != ")":
                raise ValueError("expected )")
            return e
        t = eat()
        if t in ("true", "1"):
            return z3.BoolVal(True)
        if t in ("false", "0"):
            return z3.BoolVal(False)
        return var(t)
    e = p_or()
    if pos[0] != len(toks):
        raise ValueError("trailing tokens in " + text)
    return e


def parse_bnet(text):
    out = []
    for ln in text.splitlines():
        ln = ln.strip()
        if not ln or ln.startswith("#") or ln.lower().startswith("targets"):
            continue
        name, expr = ln.split(",", 1)
        out.append((name.strip(), expr.strip()))
    return out


# ----------------------------------------------------------------------------- (a) translation
def pn_implicants(pn, name):
    """(up, down) lists of implicants (dict var -> 0/1, including the changed variable's source value)"""
    up, down = [], []
    for t, data in pn.nodes(data=True):
        if data.get("kind") == "transition" and data.get("change") == name:
            pre = {}
            for p in pn.predecessors(t):
                pre[p[3:]] = 1 if p.startswith("b1_") else 0
            post = set(pn.successors(t))
            src = pre.get(name)
            dst = 1 if f"b1_{name}" in post and f"b0_{name}" not in post else 0 if f"b0_{name}" in post and f"b1_{name}" not in post else None
            ok = True
            # read arcs: every other pre-place must be given back
            for k, v in pre.items():
                if k != name and f"b{v}_{k}" not in post:
                    ok = False
            if data.get("direction") == "up":
                ok = ok and src == 0 and dst == 1
                up.append((pre, ok))
            else:
                ok = ok and src == 1 and dst == 0
                down.append((pre, ok))
    return up, down


SELFTEST = {"on": False}


def check_translation(rules_text, label):
    """returns (n_functions, n_queries, failures)"""
    from biodivine_aeon import BooleanNetwork
    from biobalm.petri_net_translation import network_to_petrinet
    bn = BooleanNetwork.from_bnet(rules_text)
    pn = network_to_petrinet(bn)
    fails = []
    V = {}
    var = lambda nm: V.setdefault(nm, z3.Bool("x_" + nm))
    funs = parse_bnet(rules_text)
    names = [nm for nm, _ in funs]
    places = sorted(p for p, d in pn.nodes(data=True) if d.get("kind") == "place")
    if places != sorted([f"b0_{n}" for n in bn.variable_names()] + [f"b1_{n}" for n in bn.variable_names()]):
        fails.append(f"{label}: places are not b0_/b1_ of every variable")
    q = 0
    s = z3.Solver()
    s.set("timeout", 60000)
    for nm, expr in funs:
        f = parse_expr(expr, var)
        x = var(nm)
        up, down = pn_implicants(pn, nm)
        for (lst, want, dname) in ((up, z3.And(f, z3.Not(x)), "up"), (down, z3.And(z3.Not(f), x), "down")):
            if not all(ok for _, ok in lst):
                fails.append(f"{label}: {nm} {dname}: a transition is not a read-arc implicant moving the token")
            disj = z3.Or([z3.And([var(k) if v else z3.Not(var(k)) for k, v in pre.items()]) for pre, _ in lst]) if lst else z3.BoolVal(False)
            s.push()
            s.add(z3.Xor(disj, z3.Not(want) if SELFTEST["on"] else want))    # selftest: vacuity twin
            r = s.check()
            q += 1
            if r == z3.sat:
                m = s.model()
                st = {k: bool(z3.is_true(m.eval(v, model_completion=True))) for k, v in V.items() if k in expr or k == nm}
                fails.append(f"{label}: {nm} {dname}: enabledness differs from the update function in state {dict(list(st.items())[:8])}")
            elif r != z3.unsat:
                fails.append(f"{label}: {nm} {dname}: unknown")
            s.pop()
    return len(funs), q, fails


def small_function_rules(k, bits):
    """network a<-f(a,b,c..), others identity; f given by truth-table bits over k inputs"""
    names = list(NAMES[:k])
    states = list(itertools.product((0, 1), repeat=k))
    terms = ["(" + " & ".join((names[j] if x[j] else "!" + names[j]) for j in range(k)) + ")" for i, x in enumerate(states) if bits >> i & 1]
    f = " | ".join(terms) if terms else "false"
    if len(terms) == len(states):
        f = "true"
    lines = [f"a, {f}"] + [f"{nm}, {nm}" for nm in names[1:]]
    return "\n".join(lines) + "\n"


# ----------------------------------------------------------------------------- (b) restriction, lifted
def check_restriction(n):
    """all nets over G_n (presence Booleans), all pairs of nested subspaces, all states"""
    from biobalm.petri_net_translation import restrict_petrinet_to_subspace as restrict
    names = list(NAMES[:n])
    shp = mk_shapes(names)
    subspaces = list(itertools.product((0, 1, None), repeat=n))
    states = list(itertools.product((0, 1), repeat=n))
    sd = lambda S: {names[i]: S[i] for i in range(n) if S[i] is not None}
    P = [z3.Bool(f"p_{i}") for i in range(len(shp))]
    fails, queries = [], 0
    # per shape and subspace: what the real code keeps (name-independent: one transition in the base net)
    kept = {}
    for S in subspaces:
        base_r = restrict(base_net(names), sd(S))
        want_places = sorted(f"b{b}_{names[i]}" for i in range(n) if S[i] is None for b in (0, 1))
        if sorted(base_r.nodes()) != want_places:
            fails.append(f"n={n} space {S}: places of the restricted net are not exactly those of the free variables")
        for i, sh in enumerate(shp):
            g = base_net(names)
            t = add_tr(g, *sh, 1)
            r = restrict(g, sd(S))
            if t in r.nodes:
                pre = {p[3:]: (1 if p.startswith("b1_") else 0) for p in r.predecessors(t)}
                post = set(r.successors(t))
                kept[S, i] = (pre, post)
            else:
                kept[S, i] = None
            extra = set(r.nodes()) - set(want_places) - {t}
            if extra:
                fails.append(f"n={n} space {S}: unexpected nodes {extra}")
    # locality premise: a random multi-transition net restricts transition-wise
    import random
    rng = random.Random(n)
    for _ in range(20):
        idx = rng.sample(range(len(shp)), 5)
        S = rng.choice(subspaces)
        g = base_net(names)
        tn = {i: add_tr(g, *shp[i], j + 1) for j, i in enumerate(idx)}
        r = restrict(g, sd(S))
        for i in idx:
            k = kept[S, i]
            if (tn[i] in r.nodes) != (k is not None):
                fails.append("locality premise failed for restrict_petrinet_to_subspace")
            elif k is not None and {p[3:]: (1 if p.startswith("b1_") else 0) for p in r.predecessors(tn[i])} != k[0]:
                fails.append("locality premise failed for restrict_petrinet_to_subspace (arcs)")
    # z3: for all nets P, all states x of S, every free variable v and direction:
    #     exists kept transition (v,dir) enabled in x|free   <=>   exists transition (v,dir) of the net enabled in x
    X = [z3.Bool(f"x_{i}") for i in range(n)]
    for S in subspaces:
        free = [i for i in range(n) if S[i] is None]
        s = z3.Solver()
        s.set("timeout", 60000)
        for i in range(n):
            if S[i] is not None:
                s.add(X[i] == bool(S[i]))
        viol = []
        for v in free:
            for up in (True, False):
                orig, rest = [], []
                for i, sh in enumerate(shp):
                    if sh[0] != names[v] or sh[1] != up:
                        continue
                    cond = [z3.Not(X[v]) if up else X[v]] + [X[names.index(u)] if b else z3.Not(X[names.index(u)]) for u, b in sh[2].items()]
                    orig.append(z3.And([P[i]] + cond))
                    k = kept[S, i]
                    if k is not None:
                        pre, post = k
                        # a kept transition must still move v's token and only read free places
                        wellformed = pre.get(names[v]) == (0 if up else 1) and (f"b{1 if up else 0}_{names[v]}" in post) and all(S[names.index(u)] is None for u in pre)
                        if not wellformed:
                            fails.append(f"n={n} space {S}: kept transition of shape {sh} is malformed: {k}")
                        rest.append(z3.And([P[i]] + [X[names.index(u)] if b else z3.Not(X[names.index(u)]) for u, b in pre.items()]))
                viol.append(z3.Xor(z3.Or(orig) if orig else z3.BoolVal(False), z3.Or(rest) if rest else z3.BoolVal(False)))
        # transitions that change a fixed variable must be gone
        for i, sh in enumerate(shp):
            if S[names.index(sh[0])] is not None and kept[S, i] is not None:
                fails.append(f"n={n} space {S}: transition changing fixed variable {sh[0]} survives")
        if viol:
            s.add(z3.Or(viol))
            r = s.check()
            queries += 1
            if r == z3.sat:
                m = s.model()
                fails.append(f"n={n} space {S}: restricted net and original net disagree; cover={[i for i in range(len(shp)) if z3.is_true(m.eval(P[i], model_completion=True))][:6]} state={[int(z3.is_true(m.eval(x, model_completion=True))) for x in X]}")
            elif r != z3.unsat:
                fails.append(f"n={n} space {S}: unknown")
    # restrict(restrict(N, S1), S2) == restrict(N, S1 ∪ S2), shape-wise (for all nets by locality)
    for S1 in subspaces:
        for S2 in subspaces:
            if any(S1[i] is not None and S2[i] is not None and S1[i] != S2[i] for i in range(n)):
                continue
            U = tuple(S1[i] if S1[i] is not None else S2[i] for i in range(n))
            for i, sh in enumerate(shp[:: max(1, len(shp) // 40)]):
                g = base_net(names)
                t = add_tr(g, *sh, 1)
                r12 = restrict(restrict(g, sd(S1)), sd(S2))
                ru = restrict(g, sd(U))
                queries += 1
                if sorted(r12.nodes()) != sorted(ru.nodes()) or sorted(r12.edges()) != sorted(ru.edges()):
                    fails.append(f"n={n}: restricting by {S1} then {S2} differs from restricting by the union for shape {sh}")
    return queries, fails


# ----------------------------------------------------------------------------- (c) percolated network
def free_input_variant(text):
    """the same model with FREE INPUTS added (variables without any update function; the repository models have none,
    their inputs were inlined): three of its functions are gated by a fresh input each (f & i / f | !i), so that fixing
    the input to 1 gives back the model and fixing it to 0 fixes the gated variable"""
    rules = parse_bnet(text)
    if not rules:
        return text, []
    idx = sorted({0, len(rules) // 2, len(rules) - 1})
    inputs = []
    out = []
    for k, (nm, e) in enumerate(rules):
        if k in idx:
            i = f"vinp{len(inputs)}"
            inputs.append(i)
            e = f"(({e}) & {i})" if len(inputs) % 2 else f"(({e}) | !{i})"
        out.append(f"{nm}, {e}")
    return "\n".join(out) + "\n", inputs


def check_percolation(path, max_nodes, label, free_inputs=False):
    """percolate_network on the node spaces of a size-limited expansion of a repo model; with free_inputs the model's
    constant variables are free inputs and the spaces fix them (one at a time to 0 and to 1, and all of them)"""
    import biobalm
    from biobalm.space_utils import percolate_network, percolate_space
    text = open(path).read()
    inputs = []
    if free_inputs:
        text, inputs = free_input_variant(text)
        if not inputs:
            return 0, 0, []
    funs = dict(parse_bnet(text))
    for nm in inputs:
        funs[nm] = nm       # a free input never changes: its dynamics are those of the identity
    fails, q = [], 0
    if free_inputs:
        # percolate_network is a public function of its own: it is handed the network as AEON loads it (free inputs have
        # NO update function), not the copy a SuccessionDiagram prepares (which gives inputs the identity function)
        import types
        import biodivine_aeon as ba
        from biobalm.petri_net_translation import network_to_petrinet
        bn0 = ba.BooleanNetwork.from_bnet(text).infer_valid_graph()
        sd = types.SimpleNamespace(network=bn0, symbolic=ba.AsynchronousGraph(bn0))
        try:
            pn0 = network_to_petrinet(bn0)
        except Exception as e:
            return 0, 0, [f"{label}: network_to_petrinet raised {type(e).__name__} on a network with free inputs: {str(e)[:100]}"]
        if any(d.get("kind") == "transition" and d.get("change") in inputs for _, d in pn0.nodes(data=True)):
            fails.append(f"{label}: the Petri net has a transition that changes a free input")
    else:
        sd = biobalm.SuccessionDiagram.from_rules(text)
    V = {}
    var = lambda nm: V.setdefault(nm, z3.Bool("x_" + nm))
    F = {nm: parse_expr(e, var) for nm, e in funs.items()}
    if free_inputs:
        if sorted(sd.network.variable_names()) != sorted(funs):
            return 0, 0, [f"{label}: free-input variant has other variables than the model"]
        spaces = []
        for k, nm in enumerate(inputs[:max_nodes]):
            spaces += [{nm: 0}, {nm: 1}]
        spaces.append({nm: (k * 7 + len(nm)) % 2 for k, nm in enumerate(inputs)})
        spaces.append({nm: (k * 5 + len(nm) + 1) % 2 for k, nm in enumerate(inputs)})
        for nm in inputs:
            if sd.network.get_update_function(nm) is not None:
                fails.append(f"{label}: {nm} is not a free input of the variant")
    else:
        sd.expand_bfs(size_limit=max_nodes)
        spaces = [sd.node_data(i)["space"] for i in sd.node_ids()][:max_nodes] + [{}]
    if not free_inputs:
        # restrict_petrinet_to_subspace on the model's own net: for every free variable the restricted net's up / down
        # implicants are, on the subspace, equivalent to the original net's (z3 over all states of the subspace), and the
        # restricted net has no place of a fixed variable
        from biobalm.petri_net_translation import restrict_petrinet_to_subspace
        for S in spaces[:max_nodes]:
            if not S:
                continue
            try:
                rp = restrict_petrinet_to_subspace(sd.petri_net, S)
            except Exception as e:
                fails.append(f"{label}: restrict_petrinet_to_subspace raised {type(e).__name__}: {str(e)[:100]}")
                continue
            places = {n_[3:] for n_, d_ in rp.nodes(data=True) if d_.get("kind") == "place"}
            if places & set(S):
                fails.append(f"{label}: restricted net keeps a place of a fixed variable ({sorted(places & set(S))[:3]})")
            sol = z3.Solver()
            sol.set("timeout", 60000)
            for k, v in S.items():
                sol.add(var(k) == bool(v))
            for nm in funs:
                if nm in S:
                    continue
                for which in (0, 1):
                    orig = pn_implicants(sd.petri_net, nm)[which]
                    rest = pn_implicants(rp, nm)[which]
                    fo = z3.Or([z3.And([var(k) == bool(v) for k, v in pre.items()]) for pre, _ in orig] + [z3.BoolVal(False)])
                    fr = z3.Or([z3.And([var(k) == bool(v) for k, v in pre.items()]) for pre, _ in rest] + [z3.BoolVal(False)])
                    sol.push()
                    sol.add(z3.Xor(fo, fr))
                    r = sol.check()
                    q += 1
                    sol.pop()
                    if r == z3.sat:
                        fails.append(f"{label}: restricted net enables a {'down' if which else 'up'} transition of {nm} differently from the original net on the space {dict(list(S.items())[:4])}")
                        break
                    if r != z3.unsat:
                        fails.append(f"{label}: unknown (restriction of {nm})")
    for S in spaces:
        for rc in (True, False):
            try:
                bn = percolate_network(sd.network, S, sd.symbolic, remove_constants=rc)
            except Exception as e:
                fails.append(f"{label}: percolate_network raised {type(e).__name__} for the space {dict(list(S.items())[:4])}: {str(e)[:100]}")
                continue
            Sp = percolate_space(sd.symbolic, S)
            s = z3.Solver()
            s.set("timeout", 60000)
            for k, v in Sp.items():
                s.add(var(k) == bool(v))
            # which variables must remain: those whose function is not constant on the percolated space
            remaining = set(bn.variable_names())
            for nm in funs:
                if nm in Sp:
                    if rc and nm in remaining:
                        fails.append(f"{label}: fixed variable {nm} not removed")
                    continue
                if nm not in remaining:
                    fails.append(f"{label}: free variable {nm} removed")
                    continue
                # closedness of the percolation: a free variable's function is not constant on the space
                for val in (True, False):
                    s.push()
                    s.add(F[nm] == val)
                    r = s.check()
                    q += 1
                    s.pop()
                    if r == z3.unsat:
                        fails.append(f"{label}: function of free variable {nm} is constant on the percolated space")
                uf = bn.get_update_function(nm)
                if uf is None and nm not in inputs:
                    fails.append(f"{label}: variable {nm} lost its update function")
                if uf is not None:
                    reads = set(TOK.findall(str(uf.as_expression()))) & set(Sp)
                    if reads:
                        fails.append(f"{label}: percolated function of free variable {nm} still reads fixed variable(s) {sorted(reads)[:3]} (space {dict(list(S.items())[:4])})")
                g = parse_expr(str(uf.as_expression()) if uf is not None else nm, var)
                s.push()
                s.add(z3.Xor(F[nm], g))
                r = s.check()
                q += 1
                s.pop()
                if r == z3.sat:
                    fails.append(f"{label}: percolated function of {nm} differs from the original on the space {dict(list(S.items())[:5])}")
                elif r != z3.unsat:
                    fails.append(f"{label}: unknown for {nm}")
            if not rc:
                # constants kept: their functions must be the constants
                for nm in Sp:
                    if nm in remaining:
                        uf = bn.get_update_function(nm)
                        if uf is None:
                            # a free input fixed by the space is no longer free: it must be the constant
                            fails.append(f"{label}: input {nm} fixed by the space {dict(list(S.items())[:5])} is still a free parameter (remove_constants=False)")
                            continue
                        g = parse_expr(str(uf.as_expression()), var)
                        # an encoding over exactly the free variables: a kept fixed variable is a constant of the result
                        s0 = z3.Solver()
                        s0.set("timeout", 60000)
                        s0.add(g != bool(Sp[nm]))
                        q += 1
                        if s0.check() != z3.unsat:
                            fails.append(f"{label}: kept fixed variable {nm} is not the constant {Sp[nm]} of the percolated network (space {dict(list(S.items())[:4])})")
                        s.push()
                        s.add(g != bool(Sp[nm]))
                        # the spaces used here are trap spaces: a kept constant reproduces the value fixed by the space
                        r = s.check()
                        q += 1
                        s.pop()
                        if r == z3.sat:
                            fails.append(f"{label}: kept constant {nm} does not have the value fixed by the trap space")
                    else:
                        fails.append(f"{label}: variable {nm} dropped although remove_constants=False")
    return len(spaces), q, fails


def _job(job):
    try:
        fd = os.open(os.path.join(common.ROOT, "scratch", "worker_stderr.log"), os.O_WRONLY | os.O_CREAT | os.O_APPEND)
        os.dup2(fd, 2)
    except OSError:
        pass
    t0 = time.time()
    import sys
    sys.setrecursionlimit(60000)      # some repository models nest parentheses thousands of levels deep
    try:
        if job["kind"] == "model":
            nf, q, fails = check_translation(open(job["path"]).read(), os.path.basename(job["path"]))
            return {"job": job, "programs": 1, "functions": nf, "queries": q, "fails": fails, "s": time.time() - t0}
        if job["kind"] == "small":
            nf = q = 0
            fails = []
            for bits in job["bits"]:
                a, b, f = check_translation(small_function_rules(job["k"], bits), f"k={job['k']} f={bits}")
                nf += 1
                q += b
                fails += f
            return {"job": {"kind": "small", "k": job["k"], "count": len(job["bits"])}, "programs": len(job["bits"]), "functions": nf, "queries": q, "fails": fails, "s": time.time() - t0}
        if job["kind"] == "restrict":
            q, fails = check_restriction(job["n"])
            return {"job": job, "programs": 1, "functions": 0, "queries": q, "fails": fails, "s": time.time() - t0}
        if job["kind"] == "perc":
            ns, q, fails = check_percolation(job["path"], job["max_nodes"], os.path.basename(job["path"]) + ("[free inputs]" if job.get("free") else ""), free_inputs=bool(job.get("free")))
            return {"job": job, "programs": ns, "functions": 0, "queries": q, "fails": fails, "s": time.time() - t0}
    except Exception as e:
        import traceback
        return {"job": job, "programs": 0, "functions": 0, "queries": 0, "fails": [], "error": repr(e) + traceback.format_exc()[-800:], "s": time.time() - t0}


def replay(rec):
    """failures of E-TV/E-LIFT are already statements about the real code's concrete output; re-run the job"""
    if rec.get("mode") == "sym":
        from checks import c10_sym
        return c10_sym.replay(rec)
    if rec.get("selftest"):
        SELFTEST["on"] = True
    r = _job(rec["job"])
    return {"reproduces": bool(r.get("fails")), "failing": r.get("fails", [])[:4], "signature": None}


def run_task(task):
    from checks import c10_sym
    return c10_sym.run_task(task)


def main(tier, seed, t0, selftest=False):
    os.makedirs(os.path.join(common.ROOT, "scratch"), exist_ok=True)
    sym_tasks = [] if selftest else [
        {"prop": PROP, "family": fam, "label": f"sym/{fam}", "timebox": box, "seed": seed, "params": {"mode": "sym"}}
        for fam, box in (("U2", 40 if tier == "quick" else 600), ("D3", 40 if tier == "quick" else 900), ("S1C2", 30 if tier == "quick" else 600))] + [
        {"prop": PROP, "family": fam, "label": f"sym-free-inputs/{fam}", "timebox": box, "seed": seed, "params": {"mode": "sym", "free_inputs": True}}
        for fam, box in (("U2", 30 if tier == "quick" else 600), ("D3", 30 if tier == "quick" else 900))]
    sym_results = common.run_tasks(sym_tasks) if sym_tasks else []
    paths = sorted(glob.glob(os.path.join(MODELS, "*.bnet")), key=lambda p: os.path.getsize(p))
    q = tier == "quick"
    jobs = []
    for p in paths:      # all repository models in both tiers (a few seconds each at most)
        jobs.append({"kind": "model", "path": p})
    for k in (1, 2, 3):
        allbits = list(range(2 ** (2 ** k)))
        for i in range(0, len(allbits), 32):
            jobs.append({"kind": "small", "k": k, "bits": allbits[i:i + 32]})
    for n in ((2, 3) if q else (2, 3, 4)):
        jobs.append({"kind": "restrict", "n": n})
    for p in (paths[:130] if q else paths):
        jobs.append({"kind": "perc", "path": p, "max_nodes": 4 if q else 8})
    for p in (paths[:40] if q else paths[:150]):
        jobs.append({"kind": "perc", "path": p, "max_nodes": 4 if q else 12, "free": True})
    if selftest:
        jobs = [j for j in jobs if j["kind"] == "model"][:3]
        SELFTEST["on"] = True
    jobs.sort(key=lambda j: (0 if j["kind"] == "restrict" else 1, -os.path.getsize(j["path"]) if "path" in j else 0))
    ctx = mp.get_context("fork")
    with ctx.Pool(common.NCPU) as pool:
        results = list(pool.imap_unordered(_job, jobs, chunksize=1))
    fails = [(r["job"], f) for r in results for f in r.get("fails", [])]
    errors = [r for r in results if r.get("error")]
    violations = []
    for r in sym_results:
        for i in r.get("inconclusive", []):
            errors.append({"job": r.get("label"), "error": "symbolic harness: " + str(i.get("reason")) + " " + str(i)[:300]})
        for c in r.get("violations", [])[:2]:
            rec = {"property": PROP, "mode": "sym", "rules": c["rules"], "hist": c.get("hist", {}), "params": {"mode": "sym"}}
            v = common.replay_record(PROP, rec)
            if v.get("reproduces") is True:
                violations.append(v)
            else:
                errors.append({"job": r.get("label"), "error": "symbolic counterexample did not reproduce: " + str(v)[:300]})
    for job, f in fails[:3]:
        if job.get("kind") == "small":
            continue
        v = common.replay_record(PROP, {"property": PROP, "job": job, "first_failure": f, "selftest": selftest})
        if v.get("reproduces"):
            violations.append(v)
    if fails and not violations:
        # small-function jobs: write the replay with the failing text
        job, f = fails[0]
        v = {"path": os.path.join(common.ROOT, "replays", PROP, "small.json"), "failing": [f]}
        os.makedirs(os.path.dirname(v["path"]), exist_ok=True)
        json.dump({"property": PROP, "job": job, "first_failure": f}, open(v["path"], "w"))
        violations.append(v)
    cov = {"programs": sum(r["programs"] for r in results), "disagreements_checked": len(fails),
           "samples": [r["job"] for r in results[:4]],
           "functions_validated": sum(r["functions"] for r in results),
           "symbolic_path_classes": sum(r.get("classes", 0) for r in sym_results),
           "symbolic_families": {r.get("label"): {"classes": r.get("classes"), "exhausted": r.get("exhausted")} for r in sym_results},
           "queries": sum(r["queries"] for r in results),
           "functions_encoded": FUNCTIONS,
           "bounds": {"a": f"{len([j for j in jobs if j['kind'] == 'model'])} repository models (all update functions, all states via z3) + all {2 + 16 + 256} functions of <= 3 inputs",
                      "b": "generic net G_n, n in " + str([j["n"] for j in jobs if j["kind"] == "restrict"]) + ": all nets, all subspaces, all states; composition for all compatible pairs of subspaces",
                      "c": f"{len([j for j in jobs if j['kind'] == 'perc' and not j.get('free')])} repository models x node spaces of a size-limited expansion: restrict_petrinet_to_subspace equivalent to the original net on the space (z3), percolate_network with remove_constants on/off; {len([j for j in jobs if j.get('free')])} models with their constant variables turned into free inputs (no update function) x spaces fixing inputs to 0 / 1 / all",
                      "sym": "real network_to_petrinet + percolate_network on symbolic networks (U2 exhaustive, D3, S1C2) x symbolic subspace, results read back completely (checks/c10_sym.py); percolate_network statements for trap spaces only",
                      "outside": "class-level generalisation for percolate_network beyond what was read back (AEON inline_constants/infer_valid_graph are native): per model only"},
           "exhaustive": False}
    ev = {"property_id": PROP, "tier": tier, "seed": seed, "level": "translation_validation", "coverage": cov,
          "assumptions": ["AEON's bnet parser and the independent parser agree on the function text (both read the same file)",
                          "AEON Percolation.percolate_subspace gives the percolated space used as the restriction domain; its closedness is re-checked by z3 per free variable"],
          "wall_s": round(time.time() - t0, 2), "violations": len(violations)}
    with open(os.path.join(common.ROOT, "scratch" if selftest else "evidence", PROP + (".selftest.json" if selftest else ".json")), "w") as f:
        json.dump(ev, f, indent=1, default=str)
    code = 0
    if violations:
        for v in violations[:3]:
            print(f"VIOLATION property={PROP} replay={v['path']}")
            print("  failing:", v.get("failing", [])[:2])
        code = 1
    elif errors:
        print(f"INCONCLUSIVE property={PROP} reason=job error {errors[0]['job']}: {errors[0]['error'][:600]}")
        code = 3
    print(f"{PROP} {tier}: symbolic classes={cov['symbolic_path_classes']}; programs={cov['programs']} functions={cov['functions_validated']} queries={cov['queries']} failures={len(fails)} wall={ev['wall_s']}s exit={code}")
    return code
