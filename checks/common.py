"""Driver shared by all E-CAB checks: task fan-out over 16 workers, replay of solver counterexamples on
the clean code, known-findings matching, evidence, exit codes (0 held / 1 VIOLATION / 3 INCONCLUSIVE)."""
from __future__ import annotations
import hashlib
import importlib
import itertools
import json
import multiprocessing as mp
import os
import subprocess
import sys
import time

ROOT = os.path.dirname(os.path.dirname(os.path.abspath(__file__)))
PY = sys.executable
NCPU = int(os.environ.get("VERIF_JOBS", "16"))


def cubes(nbits, k):
    """all assignments of the first k bits (by index)"""
    k = min(k, nbits)
    return [list(zip(range(k), vals)) for vals in itertools.product((False, True), repeat=k)]


def _quiet_stderr():
    """clingo writes 'domRec ignored' notes to fd 2 from C; keep the check's output readable"""
    try:
        os.makedirs(os.path.join(ROOT, "scratch"), exist_ok=True)
        fd = os.open(os.path.join(ROOT, "scratch", "worker_stderr.log"), os.O_WRONLY | os.O_CREAT | os.O_APPEND)
        os.dup2(fd, 2)
        os.close(fd)
    except OSError:
        pass


def _run_task(task):
    sys.setrecursionlimit(10000)
    if not task.get("keep_stderr"):
        _quiet_stderr()
    mod = importlib.import_module("checks." + task["prop"])
    t0 = time.time()
    try:
        res = mod.run_task(task)
    except BaseException as e:  # noqa
        import traceback
        res = {"label": task.get("label", ""), "classes": 0, "exhausted": False, "violations": [],
               "inconclusive": [{"reason": "worker crashed: " + repr(e), "trace": traceback.format_exc()[-2000:]}],
               "observations": 0, "samples": [], "queries": {}, "z3_s": 0, "real_s": 0, "wall_s": time.time() - t0}
    res = dict(res)
    res["task"] = {k: v for k, v in task.items() if k not in ("cube",)}
    res["task"]["cube"] = str(task.get("cube", ""))
    res["task_full"] = {k: v for k, v in task.items() if k != "cube"}
    return res


def fit_budget(tasks, wall_minutes):
    """scale the time boxes so that the whole task list fits the wall budget on NCPU workers (tasks that
    exhaust their family finish early; the others report exhaustive=false)"""
    total = sum(t.get("timebox", 0) for t in tasks)
    budget = wall_minutes * 60.0 * NCPU * 0.9
    if total > budget:
        f = budget / total
        for t in tasks:
            t["timebox"] = max(5.0, t["timebox"] * f)
    return tasks


def run_tasks(tasks, deadline_s=None):
    """run tasks on a process pool; returns list of results"""
    out = []
    if not tasks:
        return out
    if os.environ.get("VERIF_TIER_NOW") == "thorough":
        fit_budget(tasks, float(os.environ.get("VERIF_THOROUGH_MIN", "15")))
    else:
        fit_budget(tasks, float(os.environ.get("VERIF_QUICK_MIN", "2.5")))
    tasks = sorted(tasks, key=lambda t: -t.get("timebox", 0))     # long boxes first: short tail
    ctx = mp.get_context("fork")
    with ctx.Pool(min(NCPU, len(tasks)), maxtasksperchild=4) as pool:
        for r in pool.imap_unordered(_run_task, tasks, chunksize=1):
            out.append(r)
    return out


def replay_record(prop, record, timeout=120):
    """run the counterexample on the clean code in a fresh process; returns dict(reproduces, failing, detail)"""
    os.makedirs(os.path.join(ROOT, "replays", prop), exist_ok=True)
    body = json.dumps(record, sort_keys=True, default=str)
    h = hashlib.sha1(body.encode()).hexdigest()[:12]
    path = os.path.join(ROOT, "replays", prop, h + ".json")
    with open(path, "w") as f:
        f.write(body)
    env = dict(os.environ)
    env["PYTHONHASHSEED"] = env.get("PYTHONHASHSEED", "0")
    try:
        p = subprocess.run([PY, os.path.join(ROOT, "engine", "replay.py"), path], capture_output=True, text=True,
                           timeout=timeout, cwd=ROOT, env=env)
        lines = [ln for ln in p.stdout.splitlines() if ln.startswith("REPLAY ")]
        if not lines:
            return {"path": path, "reproduces": None, "detail": "replay produced no verdict: " + (p.stderr[-800:] or p.stdout[-800:])}
        verdict = json.loads(lines[-1][7:])
        verdict["path"] = path
        return verdict
    except subprocess.TimeoutExpired:
        return {"path": path, "reproduces": "timeout", "detail": f"replay did not finish within {timeout}s"}


def recheck_real_order(prop, c):
    """returns 'hazard' (no violation under the real oracle order), a replay verdict dict (violation that
    reproduces), or None (still unexplained)"""
    task = c.get("task_full")
    if not task or task.get("params", {}).get("order", "canonical") == "real":
        return None
    from engine.ref import parse_bnet
    try:
        _, tables = parse_bnet(c["rules"])
    except Exception:
        return None
    t = dict(task)
    t["params"] = dict(task["params"], order="real")
    t["start_at"] = {"tables": tables, "hist": c.get("hist", {})}
    t["max_classes"] = 1
    t.pop("cube", None)
    r = run_tasks([t])[0]
    if r.get("inconclusive"):
        return None
    if not r.get("violations"):
        return "hazard"
    v2 = r["violations"][0]
    rec = {"property": prop, "rules": v2["rules"], "hist": v2.get("hist", {}), "params": t["params"], "label": c.get("label")}
    v = replay_record(prop, rec)
    return v if v.get("reproduces") is True else None


def load_findings():
    """open findings from known_findings.txt ("open: {json}" lines); "fixed:" lines suppress nothing"""
    p = os.path.join(ROOT, "known_findings.txt")
    out = []
    if os.path.exists(p):
        for ln in open(p):
            ln = ln.strip()
            if ln.startswith("open:"):
                d = json.loads(ln[5:].strip())
                d["status"] = "open"
                out.append(d)
    return out


def match_finding(prop, verdict, findings):
    """a reproduced counterexample matches an *open* finding iff the replay's signature equals the entry's"""
    sig = verdict.get("signature")
    for f in findings:
        if f.get("status") == "open" and f.get("property") == prop and sig is not None and f.get("signature") == sig:
            return f
    return None


def finish(prop, tier, seed, level, results, t0, *, selftest=False, hang_is_violation=False, extra_cov=None, assumptions=None, functions=None, bounds=None,
           max_replays=6, replay_timeout=120):
    """aggregate, replay, write evidence, print verdict lines, return exit code"""
    findings = load_findings()
    classes = sum(r.get("classes", 0) for r in results)
    obs = sum(r.get("observations", 0) for r in results)
    inconclusive = [dict(i, label=r.get("label")) for r in results for i in r.get("inconclusive", [])]
    hangs = [dict(h, label=r.get("label"), params=r.get("task", {}).get("params")) for r in results for h in r.get("hangs", [])]
    if hangs and not hang_is_violation:
        inconclusive.append({"reason": f"the real code did not finish within the per-class budget on {len(hangs)} representative(s) (termination is decided by C13)",
                             "rules": hangs[0]["rules"], "hist": hangs[0].get("hist"), "label": hangs[0].get("label")})
    cexs = [dict(v, label=r.get("label"), params=r.get("task", {}).get("params"), task_full=r.get("task_full")) for r in results for v in r.get("violations", [])]
    if hang_is_violation:
        cexs = [dict(h, kind="hang", info={"hang": True}) for h in hangs] + cexs
    nviol_classes = len(cexs)
    violations, known, nonrepro, hazards = [], [], [], []
    seen_sig = set()
    tried = 0
    # at most max_replays counterexamples are replayed, one per task label first (diverse witnesses)
    first, rest, seen_lab = [], [], set()
    for c in cexs:
        if c.get("label") not in seen_lab:
            seen_lab.add(c.get("label"))
            first.append(c)
        else:
            rest.append(c)
    order = first + rest
    for c in order:
        if tried >= max_replays:
            break
        tried += 1
        rec = {"property": prop, "rules": c["rules"], "hist": c.get("hist", {}), "params": c.get("params") or {},
               "label": c.get("label"), "info": c.get("info")}
        v = replay_record(prop, rec, timeout=replay_timeout)
        c["replay"] = v
        if v.get("reproduces") == "timeout" and not v.get("signature"):
            v["signature"] = {"site": "non-termination"}
        if v.get("reproduces") in (True, "timeout") and (v.get("reproduces") is True or prop == "C13"):
            f = match_finding(prop, v, findings)
            if f is not None:
                if f["id"] not in seen_sig:
                    seen_sig.add(f["id"])
                    known.append((f, v))
            else:
                violations.append((c, v))
        else:
            # Did the counterexample depend on a substituted oracle answer (list order)?  Re-decide its class with
            # the real library order; only a counterexample that survives that and still fails to replay is an error.
            h = recheck_real_order(prop, c)
            if h == "hazard":
                hazards.append({"rules": c["rules"], "hist": c.get("hist"), "label": c.get("label")})
            elif isinstance(h, dict):
                violations.append((c, h))
            else:
                nonrepro.append((c, v))
    families = {}
    for r in results:
        lab = r.get("label", "")
        d = families.setdefault(lab, {"classes": 0, "exhausted": True, "tasks": 0, "violating_classes": 0})
        d["classes"] += r.get("classes", 0)
        d["tasks"] += 1
        d["exhausted"] = d["exhausted"] and bool(r.get("exhausted"))
        d["violating_classes"] += len(r.get("violations", []))
    q = {}
    for r in results:
        for k, v in r.get("queries", {}).items():
            q[k] = q.get(k, 0) + v
    samples = [s for r in results for s in r.get("samples", [])][:5]
    cov = {
        "states": max(classes, 1),
        "transitions": max(obs, 1),
        "traces_validated_against_impl": classes,
        "samples": samples or [{"note": "no class explored"}],
        "evaluations": classes,
        "distinct_nontrivial": classes,
        "rule": "one evaluation = one path class of the real code (distinct by construction: each class is blocked in the solver frontier before the next representative is drawn); states=classes, transitions=observation constraints",
        "exhaustive": all(d["exhausted"] for d in families.values()) and not inconclusive,
        "families": families,
        "queries": q,
        "z3_s": round(sum(r.get("z3_s", 0) for r in results), 2),
        "real_code_s": round(sum(r.get("real_s", 0) for r in results), 2),
        "violating_classes": nviol_classes,
        "counterexamples_replayed": tried,
        "non_reproducing": len(nonrepro),
        "budget_exceeded": len(hangs),
        "contract_level_hazards": hazards[:5],
        "known_findings_matched": [f["id"] for f, _ in known],
        "functions_encoded": functions or [],
        "bounds": bounds or {},
    }
    if extra_cov:
        cov.update(extra_cov)
    ev = {"property_id": prop, "tier": tier, "seed": seed, "level": level, "coverage": cov,
          "assumptions": assumptions or [], "wall_s": round(time.time() - t0, 2), "violations": len(violations)}
    os.makedirs(os.path.join(ROOT, "evidence"), exist_ok=True)
    os.makedirs(os.path.join(ROOT, "scratch"), exist_ok=True)
    with open(os.path.join(ROOT, "scratch" if selftest else "evidence", prop + (".selftest.json" if selftest else ".json")), "w") as f:
        json.dump(ev, f, indent=1, default=str)
    for f_, v in known:
        print(f"KNOWN-FINDING: property={prop} {f_['what']}")
    code = 0
    if violations:
        for c, v in violations[:3]:
            print(f"VIOLATION property={prop} replay={v['path']}")
            print("  failing:", (v.get("failing") or [v.get("detail")])[:3])
        code = 1
    elif nonrepro and not known:
        c, v = nonrepro[0]
        print(f"INCONCLUSIVE property={prop} reason=solver counterexample did not reproduce on the clean code ({v.get('detail') or v.get('failing')}) replay={v.get('path')}")
        code = 3
    elif inconclusive:
        print(f"INCONCLUSIVE property={prop} reason={inconclusive[0].get('reason')} {json.dumps(inconclusive[0], default=str)[:600]}")
        code = 3
    print(f"{prop} {tier}: classes={classes} observations={obs} exhaustive={cov['exhaustive']} violating_classes={nviol_classes} "
          f"violations={len(violations)} known={len(known)} wall={ev['wall_s']}s exit={code}")
    return code
