"""C01 — reported attractor seeds correspond one-to-one to the network's attractors.
E-CAB: a complete strategy with default settings, then seeds for every expanded node; z3 decides, over the
symbolic truth table, that every seed lies in an attractor inside its node and outside the node's successors
and that every attractor (terminal SCC of the asynchronous STG, via REACH/ATTR) has exactly one seed."""
from __future__ import annotations
from engine import specs
from checks import hist, histcheck, common

PROP = "C01"
STRATS = ["build", "blockd", "fullbfs", "fulldfs", "sccd", "faseeds"]
FUNCTIONS = ["SuccessionDiagram.build/expand_block/expand_scc/expand_bfs/expand_dfs/expand_attractor_seeds",
             "SuccessionDiagram.expanded_attractor_seeds/node_attractor_seeds/node_attractor_candidates",
             "compute_attractor_candidates (+retained set, greedy ASP, simulation)", "expand_source_blocks (clean-block MAA test)",
             "attach_scc_subdiagram (MAA propagation)", "compute_attractors_symbolic [region oracle specified by REACH]"]


def execute(rules, skeleton, H, names, params):
    sd, trace = hist.run_history(rules, skeleton, H, names, attractors=True)
    return {"trace": trace}


def assertion(B, rules, skeleton, out, params):
    parts = []
    tr = out["trace"]
    for k, ent in enumerate(tr):
        parts.append((f"op {k} {ent['kind']}: no exception ({ent['rec']['exc']}: {ent['rec'].get('msg')})", B.const(ent["rec"]["exc"] is None)))
    if any(e["rec"]["exc"] is not None for e in tr):
        return parts
    # the completing strategy is the op before the final "allseeds" (after an optional plain prefix), or "build" itself
    first = tr[-2] if len(tr) >= 2 and tr[-1]["kind"] == "allseeds" else tr[0]
    if first["kind"] != "build":
        if len(tr) > 2:
            # after a prefix of plain calls: the claim is conditional on the strategy reporting completion
            if first["rec"].get("skipped") or first["rec"]["ret"] is not True:
                return parts
        else:
            parts.append((f"{first['kind']} reports completion", B.const(first["rec"]["ret"] is True)))
    dump = tr[-1]["dump"]
    if first["kind"] == "build":
        seeds = {n["id"]: n["attractor_seeds"] for n in dump["nodes"] if n["expanded"]}
        parts.append(("build computed seeds for every expanded node", B.const(all(v is not None for v in seeds.values()))))
        seeds = {k: (v or []) for k, v in seeds.items()}
    else:
        seeds = {int(k): v for k, v in tr[-1]["rec"]["ret"].items()}
    parts += specs.seeds_sound(B, dump, seeds)
    parts += specs.seeds_cover(B, dump, seeds, exactly_once=True)
    return parts


def signature(B, rec, out, failing):
    """identifies WHICH failure this is (for the known-findings list): returns a site only for the one recorded shape -
    after expand_scc(), no attractor lacks a seed, and every attractor with more than one seed has its seeds at two nodes
    N and M with M strictly inside N although M is not a descendant of N in the diagram.  Anything else: None (reported)."""
    tr = out["trace"]
    sk = [e["kind"] for e in tr]
    if len(sk) < 2 or sk[-1] != "allseeds" or sk[-2] != "sccd":
        return None
    if not failing or not all("has exactly one seed" in f for f in failing):
        return None
    dump = tr[-1]["dump"]
    nodes = specs.node_by_id(dump)
    oe = specs.out_edges(dump)
    seeds = [(int(k), tuple(s)) for k, v in tr[-1]["rec"]["ret"].items() for s in v]
    if any(any(v is None for v in s) for _, s in seeds):
        return None

    def desc(n):
        seen, stack = set(), [n]
        while stack:
            for e in oe[stack.pop()]:
                if e["c"] not in seen:
                    seen.add(e["c"])
                    stack.append(e["c"])
        return seen
    shape_ok = False
    for x in B.states:
        if not B.attr(x):
            continue
        hits = [(nid, s) for nid, s in seeds if B.reach(x, s) and B.reach(s, x)]
        if len(hits) == 0:
            return None                      # a missing attractor is a different failure
        if len(hits) == 1:
            continue
        for i, (n1, _) in enumerate(hits):
            for (n2, _) in hits[i + 1:]:
                a, b = nodes[n1]["space"], nodes[n2]["space"]
                if n1 == n2:
                    return None
                if specs.refines(a, b) and a != b and n1 not in desc(n2):
                    shape_ok = True
                elif specs.refines(b, a) and a != b and n2 not in desc(n1):
                    shape_ok = True
                else:
                    return None
    return {"site": "expand_scc: attractor seeded at a node and again at a nested node that is not its descendant"} if shape_ok else None


def info(out):
    return {"ops": [(e["kind"], e["rec"]["exc"]) for e in out["trace"]], "nodes": len(out["trace"][-1]["dump"]["nodes"])}


def run_task(task):
    import checks.C01 as me
    if task["params"].get("mode") == "models":
        from checks import c18_models
        return c18_models.run_task(task)
    if task["params"].get("mode") == "cas":
        from checks import cas_unit
        return cas_unit.run_task(task)
    return histcheck.run_task(task, me)


def replay(rec):
    import checks.C01 as me
    if rec["params"].get("mode") == "models":
        from checks import c18_models
        return c18_models.replay(rec)
    if rec["params"].get("mode") == "cas":
        from checks import cas_unit
        return cas_unit.replay(rec)
    return histcheck.replay(rec, me)


def tasks(tier, seed, selftest=False):
    S = []
    q = tier == "quick"
    if selftest:
        return histcheck.mk_tasks(PROP, [dict(family="U2", skeleton=("build",), timebox=60)], seed, True)
    for st in STRATS:
        sk = (st,) if st == "build" else (st, "allseeds")
        S.append(dict(family="U2", skeleton=sk, timebox=120))
        S.append(dict(family="D3", skeleton=sk, timebox=30 if q else 1800))
        # modular networks: a 3-variable component constrained by the solver to have a motif-avoidant attractor,
        # next to an independent switch / source (products are composed from the components' atoms)
        S.append(dict(family="P:MAA3+SW2", skeleton=sk, timebox=40 if q else 900))
        # a minimal trap space that holds two attractors
        S.append(dict(family="TWOATT3", skeleton=sk, timebox=6 if q else 300))
        # a motif-avoidant core with a variable downstream of it (nested blocks, the minimal block is not clean)
        S.append(dict(family="MAAD4", skeleton=sk, timebox=12 if q else 600))
        # after a plain prefix (a node expanded by hand / a limited BFS): the strategies that walk the diagram from the
        # root are complete from any partially expanded diagram (expand_block is not, cf. C03, and is not claimed here)
        if st in ("fullbfs", "fulldfs", "sccd", "faseeds"):
            for pre in ("succ", "bfs"):
                S.append(dict(family="U2", skeleton=(pre,) + sk, timebox=6 if q else 300))
                S.append(dict(family="D3", skeleton=(pre,) + sk, timebox=8 if q else 600))
        # inputs presented as free inputs (variables without update function)
        S.append(dict(family="D3", skeleton=sk, timebox=10 if q else 600, tag="free-inputs", params={"free_inputs": True}))
        S.append(dict(family="S1C2", skeleton=sk, timebox=10 if q else 600, tag="free-inputs", params={"free_inputs": True}))
        if not q:
            S.append(dict(family="P:MAA3+SRC1", skeleton=sk, timebox=600))
            S.append(dict(family="P:D3+SW2", skeleton=sk, timebox=600))
        if q:
            S.append(dict(family="B21", skeleton=sk, timebox=15))
        else:
            S.append(dict(family="U3", skeleton=sk, timebox=600, cube_k=5, nbits=24))
            for fam in ("B22", "CH4", "S2C2", "S1C3"):
                S.append(dict(family=fam, skeleton=sk, timebox=300, cube_k=4, nbits=20 if fam != "S1C3" else 26))
            S.append(dict(family="U2", skeleton=sk, timebox=300, params={"order": "reversed"}))
    T = histcheck.mk_tasks(PROP, S, seed)
    # the seed-selection step on its own: compute_attractors_symbolic on every state of the node in a symbolic order
    # (checks/cas_unit.py), fine mode
    T.append({"prop": PROP, "family": "U2", "label": "U2/cas-unit", "timebox": 40 if q else 900, "seed": seed, "params": {"mode": "cas"}})
    T.append({"prop": PROP, "family": "D3", "label": "D3/cas-unit", "timebox": 40 if q else 1200, "seed": seed, "params": {"mode": "cas"}})
    if not q:
        for cube in common.cubes(24, 4):
            T.append({"prop": PROP, "family": "U3", "label": "U3/cas-unit", "timebox": 600, "seed": seed, "cube": cube, "params": {"mode": "cas"}})
    # the recorded open finding F-C01-scc-nested (known_findings.txt): its witness class is re-decided on every run, so
    # that the check reports "KNOWN-FINDING" while the defect exists and nothing once it is gone
    from engine.ref import parse_bnet
    wit = "a, (!a & b) | (a & !b)\nb, (!a & !b) | (a & b)\nc, (c & d) | (c & a)\nd, (!c & d)\n"
    T.append({"prop": PROP, "family": "B22", "label": "B22/sccd+allseeds/known-finding-witness", "timebox": 20, "seed": seed, "max_classes": 2,
              "start_at": {"tables": parse_bnet(wit)[1], "hist": {}}, "params": {"skeleton": ["sccd", "allseeds"]}})
    # published models (5-321 variables): after each complete strategy, z3 decides over all states that the reported
    # fixed-point attractors are exactly the fixed points of the model; every minimal trap space carries at least one seed (a fixed point exactly one),
    # seeds lie in their node's space (checks/c18_models.py)
    import glob
    import os
    mdir = os.path.join(os.environ.get("VERIF_REPO", "/repo"), "models/bbm-bnet-inputs-true")
    paths = sorted(glob.glob(os.path.join(mdir, "*.bnet")), key=os.path.getsize)
    paths = paths[:150] if q else paths
    strats = ["build", "aseeds", "block", "scc", "bfs"]
    for i in range(0, len(paths), 10 if q else 3):
        T.append({"prop": PROP, "family": "-", "label": "models/complete-strategies", "timebox": 20 if q else 200, "seed": seed,
                  "params": {"mode": "models", "models": paths[i:i + (10 if q else 3)], "strats": strats, "cap_s": 20 if q else 150}})
    return T


def main(tier, seed, t0, selftest=False):
    results = common.run_tasks(tasks(tier, seed, selftest))
    return common.finish(PROP, tier, seed, "model_checking", results, t0, selftest=selftest, functions=FUNCTIONS,
                         bounds={"strategies": "build, expand_block(), expand_bfs(), expand_dfs(), expand_scc(), expand_attractor_seeds() with default settings",
                                 "families": "U2 exhaustive; D3, B21, P:MAA3+SW2 (5 variables: motif-avoidant core x switch) time-boxed (quick); U3 cubes, B22, CH4, S2C2, S1C3, reversed oracle order (thorough)",
                                 "cas unit": "compute_attractors_symbolic on the (un)expanded root with all states outside the child motifs as candidates, in a symbolic order, seeds_only symbolic; fine mode (U2, D3; U3 cubes in thorough)",
                                 "published models": "150 smallest models (quick) / all 210 (thorough) x {build, attractor-seed, block, source-SCC, BFS(<=150 nodes)}: fixed-point attractors reported = all fixed points (z3 over all states), at least one seed per minimal trap space (exactly one per fixed point), seeds inside their node and not inside a successor; runs over the time cap or incomplete are skipped and counted",
                                 "outside": "n > 4 (7 for modular families) for the full one-to-one statement; on the published models complex attractors are not decided"},
                         assumptions=["contract stubs of DESIGN.md §8 validated on every representative",
                                      "compute_attractors_symbolic is a region oracle specified through REACH (its inside is decided by C12/C13)"])
