"""Histories of API calls with symbolic parameters.

A *skeleton* is a tuple of op kinds (enumerated: it decides which parameters exist); every numeric
parameter (start node, size/level/stack limits, target trits, flags) is a solver variable that the real
code sees through SymInt, so one path class covers all values that steer the run identically.
The same code runs concretely in the replay (parameters from the recorded model)."""
from __future__ import annotations
import z3
from engine import ops
from engine.cab import CTX, SymInt

# kind -> list of (param name, type)   types: node | lim | flag | target
KINDS = {
    "bfs": [("node", "node"), ("level", "lim"), ("size", "lim")],
    "dfs": [("node", "node"), ("stack", "lim"), ("size", "lim")],
    "min": [("node", "node"), ("size", "lim"), ("skip", "flag")],
    "minp": [("node", "node"), ("size", "lim")],            # minimal-space without skipping (plain)
    "aseeds": [("size", "lim")],
    "target": [("target", "target"), ("size", "lim")],
    "control": [("target", "target"), ("all", "flag")],      # succession_control towards a symbolic target
    "blockp": [("size", "lim"), ("maa", "flag")],           # block expansion without source shortcuts (plain)
    "block": [("size", "lim"), ("maa", "flag"), ("optsrc", "flag"), ("exact", "flag")],
    "scc": [("maa", "flag")],
    "succ": [("node", "node")],
    "skip": [("node", "node")],
    "skiprem": [],
    "cands": [("node", "node"), ("greedy", "flag"), ("sim", "flag")],
    "seeds": [("node", "node")],
    "sets": [("node", "node")],
    "qcands": [("node", "node")],      # compute=False queries
    "qseeds": [("node", "node")],
    "reclaim": [],
    "pickle": [],
    "build": [],
    "fullbfs": [],
    "fulldfs": [],
    "fmin": [("skip", "flag")],          # minimal-space expansion from the root, no limit
    "faseeds": [],
    "skipall": [],                      # skip_to_minimal on every stub
    "fbseeds": [("node", "node")],      # seeds with symbolic_fallback=True
    "everyseeds": [],                   # node_attractor_seeds(compute=True) on every node
    "allseeds": [],                     # expanded_attractor_seeds()
    "summary": [],
    "blockd": [],                       # expand_block() with default settings
    "sccd": [],                         # expand_scc() with default settings
    "selfhang": [],                     # vacuity twin of C13: an operation that never returns
    "nop": [],
}
MAXNODE = 9
MAXLIM = 7


def declare(skeleton, n, maxlim=MAXLIM, maxnode=MAXNODE):
    """solver variables and range constraints for a skeleton"""
    vs, cs = [], []
    for k, kind in enumerate(skeleton):
        for (p, ty) in KINDS[kind]:
            if ty == "node":
                v = z3.Int(f"h{k}_{p}")
                vs.append(v)
                cs += [v >= -1, v <= maxnode]
            elif ty == "lim":
                v = z3.Int(f"h{k}_{p}")
                vs.append(v)
                cs += [v >= -1, v <= maxlim]
            elif ty == "flag":
                vs.append(z3.Bool(f"h{k}_{p}"))
            elif ty == "target":
                ts = [z3.Int(f"h{k}_{p}{i}") for i in range(n)]
                vs += ts
                for t in ts:
                    cs += [t >= -1, t <= 1]
                cs.append(z3.Or([t >= 0 for t in ts]))   # non-empty target
    return vs, cs


class SymH:
    """parameter reader for the explorer"""

    def __init__(self, n):
        self.n = n

    def lim(self, name):
        v = z3.Int(name)
        if CTX.obs(v == -1):
            return None
        return SymInt(v)

    def node(self, name, nnodes, default_none=True):
        v = z3.Int(name)
        if CTX.obs(v == -1):
            return None if default_none else 0
        if not CTX.obs(v < nnodes):
            return "skip"
        return SymInt(v).concrete()

    def flag(self, name):
        return CTX.obs(z3.Bool(name))

    def free(self, i):
        return SymInt(z3.Int(f"fi{i}")).concrete() == 1

    def target(self, name, names):
        d = {}
        for i, nm in enumerate(names):
            t = SymInt(z3.Int(f"{name}{i}")).concrete()
            if t >= 0:
                d[nm] = t
        return d


class ConcH:
    def __init__(self, hist):
        self.h = hist

    def lim(self, name):
        v = self.h.get(name, -1)
        return None if v == -1 else int(v)

    def node(self, name, nnodes, default_none=True):
        v = self.h.get(name, -1)
        if v == -1:
            return None if default_none else 0
        if v >= nnodes:
            return "skip"
        return int(v)

    def flag(self, name):
        return bool(self.h.get(name, False))

    def free(self, i):
        return int(self.h.get(f"fi{i}", 0)) == 1

    def target(self, name, names):
        d = {}
        for i, nm in enumerate(names):
            t = self.h.get(f"{name}{i}", -1)
            if t >= 0:
                d[nm] = int(t)
        return d


def build_op(k, kind, H, sd, names):
    """concrete op dict for apply_op (parameters possibly SymInt); None = op not applicable (skipped)"""
    op = {"op": kind}
    if kind == "minp":
        op["op"] = "min"
        op["skip"] = False
    if kind == "blockp":
        op["op"] = "block"
        op["optsrc"] = False
    if kind in ("fullbfs", "fulldfs"):
        return {"op": kind[4:]}
    if kind == "fmin":
        return {"op": "min", "skip": H.flag(f"h{k}_skip")}
    if kind == "faseeds":
        return {"op": "aseeds"}
    if kind == "blockd":
        return {"op": "block"}
    if kind == "sccd":
        return {"op": "scc"}
    if kind in ("qcands", "qseeds"):
        op["op"] = kind[1:]
        op["compute"] = False
    for (p, ty) in KINDS[kind]:
        nm = f"h{k}_{p}"
        if ty == "node":
            needs = kind in ("succ", "skip", "cands", "seeds", "sets", "qcands", "qseeds", "fbseeds")
            v = H.node(nm, len(sd), default_none=not needs)
            if v == "skip":
                return None
            op[p] = v
        elif ty == "lim":
            op[p] = H.lim(nm)
        elif ty == "flag":
            op[p] = H.flag(nm)
        elif ty == "target":
            op[p] = H.target(nm, names)
    return op


# ---- presentation of inputs: variables whose dynamics are the identity can be handed to the library as FREE INPUTS
# (no update function at all: the rule line is dropped from the bnet text; AEON then creates an implicit parameter
# without regulators, which biobalm accepts and reads as "never changes")
PRESENT = {"free": (), "order": None}


def declare_free(net):
    """fi<v> = 1: variable v is presented as a free input; only allowed when its dynamics are the identity"""
    vs, cs = [], []
    for i in range(net.n):
        t = z3.Int(f"fi{i}")
        vs.append(t)
        cs += [t >= 0, t <= 1, z3.Implies(t == 1, z3.And([net.fval(i, x) == bool(x[i]) for x in net.states]))]
    cs.append(z3.Sum(vs) >= 1)
    return vs, cs


def set_presentation(H, names, params):
    PRESENT["free"] = ()
    PRESENT["order"] = params.get("decl_order")
    if params.get("free_inputs"):
        PRESENT["free"] = tuple(nm for i, nm in enumerate(names) if H.free(i))


def present(rules):
    free = PRESENT["free"]
    if not free:
        return rules
    lines = [ln for ln in rules.splitlines() if ln.strip()]
    import re
    out = []
    for ln in lines:
        nm = ln.split(",", 1)[0].strip()
        others = " ".join(l.split(",", 1)[1] for l in lines if l.split(",", 1)[0].strip() not in free)   # functions that stay
        if nm in free and re.search(r"(?<![A-Za-z0-9_])" + re.escape(nm) + r"(?![A-Za-z0-9_])", others):
            continue        # dropped: the variable still exists because another function mentions it
        out.append(ln)
    return "\n".join(out) + "\n"


def reordered_network(text, order):
    """the same network as a BooleanNetwork OBJECT whose variables are declared in another order (the text loaders
    always sort the names; a network built through the API need not be sorted)"""
    import biodivine_aeon as ba
    from engine import oracles
    BN = oracles.REAL.get("BooleanNetwork", ba.BooleanNetwork)
    src = BN.from_bnet(text)
    names = list(src.variable_names())
    names = names[::-1] if order == "reversed" else names[1:] + names[:1]
    bn = BN(names)
    for r in src.regulations():
        bn.add_regulation({"source": src.get_variable_name(r["source"]), "target": src.get_variable_name(r["target"]),
                           "essential": r.get("essential", True), "sign": r.get("sign")})
    for nm in names:
        f = src.get_update_function(nm)
        if f is not None:
            bn.set_update_function(nm, str(f))
    return oracles.wrap_network(bn) if hasattr(oracles, "wrap_network") else bn


def from_rules(rules, config=None):
    from biobalm import SuccessionDiagram
    text = present(rules)
    if PRESENT.get("order"):
        bn = reordered_network(text, PRESENT["order"])
        return SuccessionDiagram(bn) if config is None else SuccessionDiagram(bn, config)
    return SuccessionDiagram.from_rules(text) if config is None else SuccessionDiagram.from_rules(text, config=config)


def run_history(rules, skeleton, H, names, after_op=None, attractors=False, config=None):
    """execute the skeleton; returns (sd, trace) with trace = list of dict(kind, op, rec, dump)"""
    sd = from_rules(rules, config)
    trace = []
    for k, kind in enumerate(skeleton):
        op = build_op(k, kind, H, sd, names)
        if op is None:
            trace.append({"kind": kind, "op": None, "rec": {"ret": None, "exc": None, "skipped": True},
                          "dump": ops.dump_sd(sd, names, attractors)})
            continue
        sd, rec = ops.apply_op(sd, op, names)
        rec = {"ret": ops.plain(rec.get("ret")), "exc": rec.get("exc"), "msg": rec.get("msg")}
        ent = {"kind": kind, "op": ops.plain(op), "rec": rec, "dump": ops.dump_sd(sd, names, attractors)}
        trace.append(ent)
        if after_op is not None:
            after_op(sd, k, ent)
    return sd, trace


def hist_of_model(extra_vars, m):
    return {str(k): (m.eval(k, model_completion=True).as_long() if z3.is_int(k) else bool(z3.is_true(m.eval(k, model_completion=True)))) for k in extra_vars}


CFG_FIELDS = {"cfg_thr": "retained_set_optimization_threshold", "cfg_lim": "attractor_candidates_limit",
              "cfg_sim": "minimum_simulation_budget", "cfg_nfvs": "nfvs_size_threshold", "cfg_motifs": "max_motifs_per_node"}


def declare_config(cfgmax=5, fields=CFG_FIELDS):
    vs, cs = [], []
    for k in fields:
        v = z3.Int(k)
        vs.append(v)
        cs += [v >= -1, v <= cfgmax]
    return vs, cs


def read_config(H, symbolic, fields=CFG_FIELDS):
    """configuration dict with the listed fields symbolic (-1 = default value)"""
    from biobalm import SuccessionDiagram
    cfg = SuccessionDiagram.default_config()
    for k, field in fields.items():
        if symbolic:
            if not CTX.obs(z3.Int(k) == -1):
                cfg[field] = SymInt(z3.Int(k))
        else:
            v = int(H.h.get(k, -1))
            if v != -1:
                cfg[field] = v
    return cfg
