"""./check <Cxx> --tier quick|thorough"""
import argparse
import importlib
import os
import sys
import time


def main():
    ap = argparse.ArgumentParser()
    ap.add_argument("prop")
    ap.add_argument("--tier", default=os.environ.get("VERIF_TIER", "quick"))
    ap.add_argument("--selftest", action="store_true", help="vacuity twin: assertion := false must be reported")
    a = ap.parse_args()
    seed = int(os.environ.get("VERIF_SEED", "0"))
    os.environ["VERIF_TIER_NOW"] = a.tier
    mod = importlib.import_module("checks." + a.prop)
    t0 = time.time()
    code = mod.main(a.tier, seed, t0, selftest=a.selftest) if a.selftest else mod.main(a.tier, seed, t0)
    sys.stdout.flush()
    sys.exit(code)


if __name__ == "__main__":
    main()
