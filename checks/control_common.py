"""Shared harness for the control properties C06 / C07: real succession_control (successions_to_target,
drivers_of_succession, find_drivers, Intervention) over a symbolic network with symbolic target, strategy,
driver bound, forbidden set and skip_feedforward flag; percolation answers are oracle observations."""
from __future__ import annotations
import itertools
import z3
from engine import specs, ops, symnet
from engine.symnet import refines, in_space, meet
from engine.cab import CTX, SymInt, explore
from engine.ref import ConcreteNet
from checks import hist

PREFIXES = [(), ("succ",), ("bfs",), ("succ", "skiprem"), ("blockd",), ("sccd",), ("minp",)]


def declare(prefix, n):
    vs, cs = hist.declare(tuple(prefix), n)
    ts = [z3.Int(f"tgt{i}") for i in range(n)]
    vs += ts
    for t in ts:
        cs += [t >= -1, t <= 1]
    cs.append(z3.Or([t >= 0 for t in ts]))
    md = z3.Int("maxd")
    vs.append(md)
    cs += [md >= -1, md <= n]
    vs += [z3.Bool("strat_all"), z3.Bool("skipff")] + [z3.Bool(f"forb{i}") for i in range(n)]
    return vs, cs


def read_params(H, names, symbolic):
    n = len(names)
    if symbolic:
        target = {}
        for i, nm in enumerate(names):
            t = SymInt(z3.Int(f"tgt{i}")).concrete()
            if t >= 0:
                target[nm] = t
        maxd = None if CTX.obs(z3.Int("maxd") == -1) else SymInt(z3.Int("maxd"))
        strat = "all" if CTX.obs(z3.Bool("strat_all")) else "internal"
        skipff = CTX.obs(z3.Bool("skipff"))
        forb = {nm for i, nm in enumerate(names) if CTX.obs(z3.Bool(f"forb{i}"))}
    else:
        h = H.h
        target = {nm: int(h[f"tgt{i}"]) for i, nm in enumerate(names) if h.get(f"tgt{i}", -1) >= 0}
        maxd = None if h.get("maxd", -1) == -1 else int(h["maxd"])
        strat = "all" if h.get("strat_all") else "internal"
        skipff = bool(h.get("skipff"))
        forb = {nm for i, nm in enumerate(names) if h.get(f"forb{i}")}
    return target, maxd, strat, skipff, forb


def execute(rules, prefix, H, names, symbolic):
    from biobalm.control import succession_control
    sd, trace = hist.run_history(rules, tuple(prefix), H, names, attractors=False)
    target, maxd, strat, skipff, forb = read_params(H, names, symbolic)
    r = ops.guarded(lambda: succession_control(sd, target, strategy=strat, max_drivers_per_succession_node=maxd,
                                               forbidden_drivers=set(forb), successful_only=False,
                                               skip_feedforward_successions=skipff))
    out = {"trace": trace, "target": ops._t(names, target), "maxd": ops.plain(maxd), "strategy": strat, "skipff": skipff,
           "forbidden": sorted(forb), "exc": r["exc"], "msg": r.get("msg"), "dump": ops.dump_sd(sd, names, attractors=False)}
    if r["exc"] is None:
        out["interventions"] = [{"succession": [ops._t(names, m) for m in iv.succession],
                                 "control": [[ops._t(names, d) for d in step] for step in iv.control],
                                 "successful": bool(iv.successful), "strategy": iv.strategy} for iv in r["ret"]]
        # successful_only=True must be the successful sub-list
        r2 = ops.guarded(lambda: succession_control(sd, target, strategy=strat, max_drivers_per_succession_node=maxd,
                                                    forbidden_drivers=set(forb), successful_only=True,
                                                    skip_feedforward_successions=skipff))
        out["only_successful"] = None if r2["exc"] else [[ops._t(names, m) for m in iv.succession] for iv in r2["ret"]]
    return out


def union(A, Bsp):
    """A | B as dict union where B wins (mirrors `driver_dict | assume_fixed`)"""
    return tuple(b if b is not None else a for a, b in zip(A, Bsp))


def perc_contains(B, X, m):
    """PERC(X) fixes every variable of m to m's value"""
    cands = [R for R in B.subspaces if refines(R, X) and all(mv is None or R[i] == mv for i, mv in enumerate(m))]
    return B.Or([B.perc_eq(X, R) for R in cands])


def walk(dump, succession):
    """follow the reduced motifs from the root through the dump; returns list of (parent id, child id) or None"""
    nodes = specs.node_by_id(dump)
    oe = specs.out_edges(dump)
    cur = 0
    path = []
    for m in succession:
        nxt = None
        pspace = nodes[cur]["space"]
        for e in oe[cur]:
            for am in e["all_motifs"]:
                red = tuple(None if pspace[i] is not None else am[i] for i in range(len(am)))
                if red == tuple(m):
                    nxt = e["c"]
        if nxt is None:
            return None
        path.append((cur, nxt))
        cur = nxt
    return path


def good(B, N, target):
    """every minimal trap space inside N lies inside the target"""
    return B.And([B.Not(specs.is_mintrap(B, M)) for M in B.subspaces if refines(M, N) and not refines(M, target)])


def assertion_c06(B, out):
    parts = []
    parts.append((f"succession_control raised {out['exc']}: {out.get('msg')}", B.const(out["exc"] is None)))
    if out["exc"] is not None:
        return parts
    dump = out["dump"]
    nodes = specs.node_by_id(dump)
    target = out["target"]
    n = B.n
    for k, iv in enumerate(out["interventions"]):
        if not iv["successful"]:
            continue
        pre = f"intervention {k}: "
        path = walk(dump, iv["succession"])
        # "reports as successful": an intervention that can be carried out - a step without any override cannot force anything
        parts.append((pre + "reported successful, so every step lists at least one override", B.const(all(len(st) > 0 for st in iv["control"]) and len(iv["control"]) == len(iv["succession"]))))
        parts.append((pre + "succession follows edges of the diagram from the root", B.const(path is not None)))
        if path is None:
            continue
        prev = nodes[0]["space"]
        assume = (None,) * n     # values the code treats as already fixed: nothing before the first step
        for i, ((p, c), m, step) in enumerate(zip(path, iv["succession"], iv["control"])):
            M = union(m, prev)      # unreduced motif
            T = nodes[c]["space"]
            parts.append((pre + f"step {i}: {B.sstr(M)} is a trap space nested in the previous one", B.And(B.trap(M), B.const(refines(M, prev)))))
            parts.append((pre + f"step {i}: next trap space {B.sstr(T)} is the percolation of the motif", B.perc_eq(M, T)))
            for d in step:
                d = tuple(d)
                X = union(d, assume)
                parts.append((pre + f"step {i}: LDOI of override {B.sstr(d)} (with values already fixed) contains the motif", perc_contains(B, X, m)))
                # dynamics of the overridden network from any state of the previous trap space
                ov = tuple(d)
                for x in [x for x in B.states if in_space(x, prev)]:
                    for y in B.states:
                        if not in_space(y, tuple(m)):
                            parts.append((pre + f"step {i}: override {B.sstr(d)}: from {x} no attractor state {y} outside the motif is reachable",
                                          B.Not(B.And(B.reach(x, y, ov), B.attr(y, ov)))))
            prev = T
            assume = T
        final = prev
        parts.append((pre + "final trap space is consistent with the target", B.const(meet(final, target) is not None)))
        parts.append((pre + "every minimal trap space inside the final trap space lies in the target", good(B, final, target)))
    return parts


def assertion_c07(B, out):
    """fresh diagram only"""
    parts = []
    parts.append((f"succession_control raised {out['exc']}: {out.get('msg')}", B.const(out["exc"] is None)))
    if out["exc"] is not None:
        return parts
    dump = out["dump"]
    nodes = specs.node_by_id(dump)
    oe = specs.out_edges(dump)
    target = out["target"]
    ivs = out["interventions"]
    # the diagram after the call: a faithful partial diagram, expanded exactly where the target needs it
    parts += [("diagram after control: " + l, f) for l, f in specs.partial_diagram_spec(B, dump)]
    for nd in nodes.values():
        S = nd["space"]
        inter = meet(S, target) is not None
        inside = refines(S, target) and S != target
        should = inter and not inside
        # nodes reachable only through unexpanded parents do not exist, so every existing node is reachable
        parts.append((f"node {nd['id']} expanded iff it intersects the target without being strictly inside it",
                      B.const(nd["expanded"] == should)))
    # all root paths x motif choices
    paths = []

    def rec(cur, acc):
        paths.append((cur, list(acc)))
        for e in oe[cur]:
            for am in e["all_motifs"]:
                ps = nodes[cur]["space"]
                red = tuple(None if ps[i] is not None else am[i] for i in range(B.n))
                rec(e["c"], acc + [red])
    rec(0, [])
    parents = {nid: [e["p"] for e in dump["edges"] if e["c"] == nid] for nid in nodes}
    listed = [tuple(map(tuple, iv["succession"])) for iv in ivs]
    parts.append(("no succession listed twice", B.const(len(set(listed)) == len(listed))))
    if not out["skipff"]:
        for (end, motifs) in paths:
            key = tuple(map(tuple, motifs))
            g = good(B, nodes[end]["space"], target)
            outer = B.Or([B.Not(good(B, nodes[p]["space"], target)) for p in parents[end]]) if end != 0 else B.const(True)
            is_end = B.And(g, outer)
            if end == 0:
                # root good: the single empty succession
                parts.append(("root already satisfies the target iff the empty succession is the only one",
                              B.Iff(g, B.const(listed == [()]))))
                continue
            parts.append((f"path to node {end} via {[B.sstr(m) for m in motifs]} listed iff it ends in an outermost node all of whose minimal trap spaces lie in the target",
                          B.Iff(is_end, B.const(key in listed))))
        known = {tuple(map(tuple, m)) for _, m in paths}
        parts.append(("every listed succession is a root path of the diagram", B.const(all(k in known for k in listed))))
    # drivers: exactly the inclusion-minimal allowed variable sets within the bound
    forb = {B.names.index(v) for v in out["forbidden"]}
    for k, iv in enumerate(ivs):
        path = walk(dump, iv["succession"])
        if path is None:
            continue
        prev = nodes[0]["space"]
        assume = (None,) * B.n
        for i, ((p, c), m, step) in enumerate(zip(path, iv["succession"], iv["control"])):
            m = tuple(m)
            inner = [v for v in range(B.n) if m[v] is not None and assume[v] is None]
            pool = [v for v in (inner if out["strategy"] == "internal" else range(B.n)) if v not in forb]
            bound = out["maxd"] if out["maxd"] is not None else len(inner)
            reported = {tuple(d) for d in step}
            parts.append((f"intervention {k} step {i}: no override listed twice", B.const(len(reported) == len(step))))
            works = {}
            allsets = []
            for r in range(0, min(bound, len(pool)) + 1):
                for vs in itertools.combinations(pool, r):
                    allsets.append(vs)
            for vs in allsets:
                vals_list = [tuple(m[v] for v in vs)] if out["strategy"] == "internal" else list(itertools.product((0, 1), repeat=len(vs)))
                for vals in vals_list:
                    d = [None] * B.n
                    for v, b in zip(vs, vals):
                        d[v] = b
                    d = tuple(d)
                    works[vs, d] = perc_contains(B, union(d, assume), m)
            for (vs, d), w in works.items():
                smaller = [w2 for (vs2, d2), w2 in works.items() if set(vs2) < set(vs)]
                minimal = B.And([w] + [B.Not(w2) for w2 in smaller])
                parts.append((f"intervention {k} step {i}: override {B.sstr(d)} reported iff it forces the motif and no proper sub-set of its variables does",
                              B.Iff(minimal, B.const(d in reported))))
            for d in reported:
                vsd = tuple(v for v in range(B.n) if d[v] is not None)
                okd = all(v in pool for v in vsd) and len(vsd) <= bound
                parts.append((f"intervention {k} step {i}: override {B.sstr(d)} uses only allowed variables within the size bound", B.const(okd)))
            # values fixed after the step: percolate_space(motif | assume_fixed) = the child's space
            T = nodes[c]["space"]
            parts.append((f"intervention {k} step {i}: values fixed after the step are the next node's space", B.perc_eq(union(m, assume), T)))
            assume = T
        parts.append((f"intervention {k}: flagged successful iff every step has an override", B.const(iv["successful"] == all(len(s) > 0 for s in iv["control"]))))
    if out.get("only_successful") is not None:
        parts.append(("successful_only=True returns exactly the successful interventions",
                      B.const(sorted(map(str, out["only_successful"])) == sorted(str(iv["succession"]) for iv in ivs if iv["successful"]))))
    return parts


def run_task(task, which, PROP):
    from engine import oracles
    oracles.install()
    oracles.LIST_ORDER = task["params"].get("order", "canonical")
    net = symnet.family(task["family"])
    prefix = tuple(task["params"]["prefix"])
    vs, cs = declare(prefix, net.n)
    extra = []
    if task["params"].get("fix_strategy") is not None:
        extra.append(z3.Bool("strat_all") == bool(task["params"]["fix_strategy"]))
    if task["params"].get("free_inputs"):
        fv, fc = hist.declare_free(net)
        vs, cs = vs + fv, cs + fc
    H = hist.SymH(net.n)
    selftest = task["params"].get("selftest")
    asserter = assertion_c06 if which == "C06" else assertion_c07

    def harness(ctx, rules):
        oracles.AEON_TEXT.clear()
        hist.set_presentation(H, net.names, task["params"])
        out = execute(rules, prefix, H, net.names, True)
        parts = asserter(net, out)
        if selftest:
            parts.append(("selftest", net.FALSE))
        return specs.conj(net, parts), {"target": out["target"], "strategy": out["strategy"], "n_interventions": len(out.get("interventions", []))}
    cube = [net.bits[i] if v else z3.Not(net.bits[i]) for i, v in task.get("cube", [])]
    res = explore(net, harness, extra_vars=vs, extra_constraints=cs + extra, cube=cube, timebox=task["timebox"], seed=task.get("seed", 0),
                  label=task["label"], start_at=task.get("start_at"), max_classes=task.get("max_classes"))
    res["violations"] = res["violations"][:4] + [{"rules": v["rules"], "hist": v["hist"], "kind": v["kind"]} for v in res["violations"][4:40]]
    return res


def replay(rec, which):
    B = ConcreteNet.from_bnet(rec["rules"])
    H = hist.ConcH(rec.get("hist", {}))
    hist.set_presentation(H, B.names, rec["params"])
    out = execute(rec["rules"], tuple(rec["params"]["prefix"]), H, B.names, False)
    parts = (assertion_c06 if which == "C06" else assertion_c07)(B, out)
    if rec["params"].get("selftest"):
        parts.append(("selftest", False))
    failing = specs.failing_parts(B, parts)
    return {"reproduces": bool(failing), "failing": failing[:6], "signature": {"site": "control"} if failing else None}
