"""C15 — early stops and limit errors leave a valid, resumable diagram.
E-CAB with symbolic limits, symbolic configuration values and a symbolic fault position:
scenario = (interrupting mechanism, operation).  After the interrupted call the partial-diagram invariant
(C04) must hold and nothing may be cached for the queried node after an error; repeating the call with
the limit relaxed must give the same diagram / answers as an uninterrupted twin built in the same run."""
from __future__ import annotations
import z3
from engine import specs, ops, symnet
from engine.cab import CTX, SymInt, explore
from engine.ref import ConcreteNet
from checks import hist, common
from checks.C04 import canon

PROP = "C15"
EXP_OPS = ["bfs", "dfs", "minp", "aseeds", "target"]
FUNCTIONS = ["expand_bfs", "expand_dfs", "expand_minimal_spaces", "expand_attractor_seeds", "expand_to_target",
             "expand_source_blocks (size limit / motif limit)", "SuccessionDiagram._expand_one_node (max_motifs_per_node)",
             "compute_attractor_candidates (attractor_candidates_limit)", "SuccessionDiagram.node_attractor_seeds/candidates"]
DEFAULTS = {"max_motifs_per_node": 100_000, "attractor_candidates_limit": 100_000}


PREFIX_OPS = ("succ", "bfs", "dfs")


def declare(scn, op, n):
    if scn.startswith("pre:"):
        return hist.declare((scn[4:], op), n)
    vs, cs = hist.declare((op,), n)
    if scn == "motifs":
        v = z3.Int("cfg_motifs")
        vs.append(v)
        cs += [v >= 0, v <= 6]
    if scn == "cand":
        v = z3.Int("cfg_cands")
        t = z3.Int("cfg_thr")
        vs += [v, t]
        cs += [v >= 0, v <= 5, t >= 0, t <= 5]
    if scn == "fault":
        v = z3.Int("fault_at")
        vs.append(v)
        cs += [v >= 1, v <= 8]
    return vs, cs


def unlimited(op):
    o = dict(op)
    for k in ("level", "stack", "size"):
        if k in o:
            o[k] = None
    return o


def execute(rules, scn, op_kind, H, names, symbolic):
    from biobalm import SuccessionDiagram
    from engine import oracles
    cfg = SuccessionDiagram.default_config()
    if scn == "motifs":
        cfg["max_motifs_per_node"] = SymInt(z3.Int("cfg_motifs")) if symbolic else int(H.h["cfg_motifs"])
    if scn == "cand":
        cfg["attractor_candidates_limit"] = SymInt(z3.Int("cfg_cands")) if symbolic else int(H.h["cfg_cands"])
        cfg["retained_set_optimization_threshold"] = SymInt(z3.Int("cfg_thr")) if symbolic else int(H.h["cfg_thr"])
    sd = SuccessionDiagram.from_rules(rules, config=cfg)
    if scn.startswith("pre:"):
        # a plain prefix call (symbolic parameters) before the limited call: only the return-value clause
        # and the invariant are checked (the twin comparison needs a fresh start)
        pre = hist.build_op(0, scn[4:], H, sd, names)
        out = {"scn": scn, "kind": op_kind, "pre": ops.plain(pre)}
        if pre is not None:
            sd, r0 = ops.apply_op(sd, pre, names)
            out["r0"] = {"ret": ops.plain(r0["ret"]), "exc": r0["exc"]}
        op = hist.build_op(1, op_kind, H, sd, names)
        out["op"] = ops.plain(op)
        if op is None:
            out["skipped"] = True
            return out
        sd, r1 = ops.apply_op(sd, op, names)
        out["r1"] = {"ret": ops.plain(r1["ret"]), "exc": r1["exc"], "msg": r1.get("msg")}
        out["d1"] = ops.dump_sd(sd, names, attractors=True)
        out["stubs1"] = sorted(int(i) for i in sd.stub_ids())
        return out
    op = hist.build_op(0, op_kind, H, sd, names)
    out = {"scn": scn, "kind": op_kind, "op": ops.plain(op)}
    if op is None:
        out["skipped"] = True
        return out
    if scn != "lim":
        op = unlimited(op) if scn in ("motifs", "fault") else op
    if scn == "fault":
        oracles.FAULT["count"] = 0
        oracles.FAULT["fired"] = None
        oracles.FAULT["at"] = SymInt(z3.Int("fault_at")) if symbolic else int(H.h["fault_at"])
    try:
        sd, r1 = ops.apply_op(sd, op, names)
    finally:
        oracles.FAULT["at"] = None
    out["fired"] = oracles.FAULT.get("fired") if scn == "fault" else None
    out["r1"] = {"ret": ops.plain(r1["ret"]), "exc": r1["exc"], "msg": r1.get("msg")}
    out["d1"] = ops.dump_sd(sd, names, attractors=True)
    out["stubs1"] = sorted(int(i) for i in sd.stub_ids())
    # relax and repeat
    for k, v in DEFAULTS.items():
        sd.config[k] = v
    sd.config["retained_set_optimization_threshold"] = 1000
    op2 = unlimited(op)
    sd, r2 = ops.apply_op(sd, op2, names)
    out["r2"] = {"ret": ops.plain(r2["ret"]), "exc": r2["exc"], "msg": r2.get("msg")}
    out["d2"] = ops.dump_sd(sd, names, attractors=True)
    # uninterrupted twin
    tw = SuccessionDiagram.from_rules(rules)
    tw, r3 = ops.apply_op(tw, op2, names)
    out["r3"] = {"ret": ops.plain(r3["ret"]), "exc": r3["exc"], "msg": r3.get("msg")}
    out["d3"] = ops.dump_sd(tw, names, attractors=True)
    return out


def attr_answers(dump):
    return sorted((str(n["space"]), str(n["attractor_seeds"]), str(sorted(n["attractor_candidates"]) if n["attractor_candidates"] is not None else None))
                  for n in dump["nodes"])


def assertion(B, out):
    parts = []
    if out.get("skipped"):
        return parts
    scn, kind = out["scn"], out["kind"]
    if scn.startswith("pre:"):
        r1 = out["r1"]
        parts.append((f"limited call after a prefix raises nothing (got {r1['exc']}: {r1.get('msg')})", B.const(r1["exc"] is None)))
        parts += [("after prefix + limited call: " + l, f) for l, f in specs.partial_diagram_spec(B, out["d1"])]
        o = out["op"]
        only_size = o.get("level") is None and o.get("stack") is None and o.get("size") is not None
        if r1["exc"] is None and r1["ret"] is False and only_size:
            parts.append(("a size-limited expansion returned False although no unexpanded node remains", B.const(len(out["stubs1"]) > 0)))
        if r1["exc"] is None and r1["ret"] is True and kind in ("bfs", "dfs") and o.get("node") in (None, 0):
            # an expansion from the root that reports completion has really completed, whatever was expanded before
            parts += [("expansion after a prefix returned True: " + l, f) for l, f in specs.leaves_are_mintraps(B, out["d1"], require_all_expanded=True)]
        if r1["exc"] is None and r1["ret"] is True and kind in ("minp", "aseeds") and o.get("node") in (None, 0):
            parts += [("expansion after a prefix returned True: " + l, f) for l, f in specs.leaves_are_mintraps(B, out["d1"], require_all_expanded=False)]
        return parts
    r1, r2, r3 = out["r1"], out["r2"], out["r3"]
    allowed = {"lim": (None,), "motifs": (None, "RuntimeError"), "cand": (None, "RuntimeError"), "fault": (None, "RuntimeError")}[scn]
    parts.append((f"interrupted call raises only a documented error (got {r1['exc']}: {r1.get('msg')})", B.const(r1["exc"] in allowed)))
    parts += [("after interrupted call: " + l, f) for l, f in specs.partial_diagram_spec(B, out["d1"])]
    if r1["exc"] is not None and kind in ("seeds", "cands"):
        nid = out["op"]["node"]
        nd = specs.node_by_id(out["d1"])[nid]
        parts.append(("an attractor query that raised cached nothing for the node",
                      B.const(nd["attractor_candidates"] is None and nd["attractor_seeds"] is None and not nd["has_sets"])))
    if kind in ("seeds", "cands") and r1["exc"] is None:
        nid = out["op"]["node"]
        if kind == "cands":
            parts += [("limited query: " + l, f) for l, f in specs.candidates_cover(B, out["d1"], nid, r1["ret"])]
        else:
            parts += [("limited query: " + l, f) for l, f in specs.seeds_sound(B, out["d1"], {nid: r1["ret"]})]
    if kind in EXP_OPS + ["blockp"]:
        if r1["exc"] is None and r1["ret"] is True and kind in ("bfs", "dfs"):
            o = out["op"]
            if o.get("node") in (None, 0):
                parts += [("expansion returned True: " + l, f) for l, f in specs.leaves_are_mintraps(B, out["d1"], require_all_expanded=True)]
        if r1["exc"] is None and r1["ret"] is True and kind in ("minp", "aseeds"):
            o = out["op"]
            if o.get("node") in (None, 0):
                parts += [("expansion returned True: " + l, f) for l, f in specs.leaves_are_mintraps(B, out["d1"], require_all_expanded=False)]
        if scn == "lim" and r1["exc"] is None and r1["ret"] is False:
            o = out["op"]
            only_size = o.get("level") is None and o.get("stack") is None and o.get("size") is not None
            if only_size:
                parts.append(("a size-limited expansion returned False although no unexpanded node remains", B.const(len(out["stubs1"]) > 0)))
    parts.append((f"repeated call with relaxed limits succeeds (got {r2['exc']}: {r2.get('msg')})", B.const(r2["exc"] is None)))
    parts.append((f"uninterrupted twin succeeds (got {r3['exc']})", B.const(r3["exc"] is None)))
    if scn == "lim" and kind in EXP_OPS and r1["exc"] is None and r1["ret"] is False and r2["exc"] is None:
        o = out["op"]
        if o.get("level") is None and o.get("stack") is None and o.get("size") is not None:
            # "returns False only when unexpanded nodes remain" - nodes the call itself would still expand: if the same call
            # without the limit changes nothing, the limited call had completed its contract and must not report False
            parts.append(("a size-limited expansion returned False although the unlimited repeat had nothing left to do",
                          B.const(canon(out["d1"]) != canon(out["d2"]))))
    if r2["exc"] is None and r3["exc"] is None and kind != "blockp":
        parts.append(("resumed diagram equals the uninterrupted one", B.const(canon(out["d2"]) == canon(out["d3"]))))
        if kind not in ("seeds", "cands") or r1["exc"] is not None:
            # (an attractor query that succeeded under the tighter settings is cached; only an interrupted
            # query is required to resume to the uninterrupted answer)
            parts.append(("resumed call returns what the uninterrupted one returns", B.const(r2["ret"] == r3["ret"])))
        if kind in ("seeds", "cands") and r1["exc"] is not None:
            parts.append(("resumed attractor answers equal the uninterrupted ones", B.const(attr_answers(out["d2"]) == attr_answers(out["d3"]))))
    return parts


def run_task(task):
    from engine import oracles
    oracles.install()
    oracles.LIST_ORDER = "canonical"
    net = symnet.family(task["family"])
    scn, kind = task["params"]["scn"], task["params"]["kind"]
    vs, cs = declare(scn, kind, net.n)
    H = hist.SymH(net.n)
    selftest = task["params"].get("selftest")

    def harness(ctx, rules):
        oracles.AEON_TEXT.clear()
        out = execute(rules, scn, kind, H, net.names, True)
        parts = assertion(net, out)
        if selftest:
            parts.append(("selftest", net.FALSE))
        return specs.conj(net, parts), {"op": out.get("op"), "r1": out.get("r1"), "fired": out.get("fired")}
    res = explore(net, harness, extra_vars=vs, extra_constraints=cs, timebox=task["timebox"], seed=task.get("seed", 0), label=task["label"],
                  start_at=task.get("start_at"), max_classes=task.get("max_classes"))
    res["violations"] = res["violations"][:4] + [{"rules": v["rules"], "hist": v["hist"], "kind": v["kind"]} for v in res["violations"][4:40]]
    return res


def replay(rec):
    from engine import oracles
    B = ConcreteNet.from_bnet(rec["rules"])
    scn, kind = rec["params"]["scn"], rec["params"]["kind"]
    if scn == "fault":
        oracles.install()      # pass-through wrappers only (CTX inactive): needed to inject the fault
    H = hist.ConcH(rec.get("hist", {}))
    out = execute(rec["rules"], scn, kind, H, B.names, False)
    parts = assertion(B, out)
    if rec["params"].get("selftest"):
        parts.append(("selftest", False))
    failing = specs.failing_parts(B, parts)
    sig = None
    if failing:
        sig = {"site": "size-limit-false-without-stubs"} if "size-limited expansion returned False" in failing[0] else {"site": "other"}
    return {"reproduces": bool(failing), "failing": failing[:6], "signature": sig}


def tasks(tier, seed, selftest=False):
    T = []
    q = tier == "quick"

    def add(fam, scn, kind, box):
        T.append({"prop": PROP, "family": fam, "label": f"{fam}/{scn}/{kind}", "timebox": box, "seed": seed,
                  "params": {"scn": scn, "kind": kind, "selftest": selftest}})
    if selftest:
        add("U2", "lim", "bfs", 60)
        return T
    for kind in EXP_OPS + ["blockp"]:
        add("U2", "lim", kind, 25 if q else 600)
        add("U2", "motifs", kind, 25 if q else 600)
        add("U2", "fault", kind, 25 if q else 600)
        add("D3", "lim", kind, 12 if q else 600)
        add("D3", "motifs", kind, 10 if q else 600)
        add("D3", "fault", kind, 10 if q else 600)
    # diagrams with a shared child (a node with parents at different depths): resuming walks already expanded nodes
    for kind in ("minp", "aseeds", "dfs", "bfs"):
        add("SKIP3", "lim", kind, 10 if q else 600)
    for pre in PREFIX_OPS:
        for kind in ("bfs", "dfs", "minp", "aseeds", "target"):
            add("U2", "pre:" + pre, kind, 6 if q else 900)
        for kind in ("bfs", "dfs"):
            # deep diagrams (independent switches): stubs below already expanded nodes
            add("P:SW2+SW2+U1", "pre:" + pre, kind, 10 if q else 600)
    for kind in ("seeds", "cands"):
        add("U2", "cand", kind, 25 if q else 900)
        add("U2", "fault", kind, 25 if q else 900)
        add("D3", "cand", kind, 15 if q else 900)
        add("D3", "fault", kind, 12 if q else 900)
    return T


def main(tier, seed, t0, selftest=False):
    results = common.run_tasks(tasks(tier, seed, selftest))
    return common.finish(PROP, tier, seed, "model_checking", results, t0, selftest=selftest, functions=FUNCTIONS,
                         bounds={"scenarios": "lim: symbolic size/level/stack limits; pre:<op>: the same after a plain prefix call (return-value clause and invariant only); motifs: max_motifs_per_node in 0..6; cand: attractor_candidates_limit, retained_set_optimization_threshold in 0..5; fault: RuntimeError at ASP solver call 1..8 (trappist / compute_fixed_point_reduced_STG)",
                                 "families": "U2 and D3 time-boxed (quick: 6-25 s per scenario; thorough: 10-15 min per scenario, U2 scenarios then run to exhaustion)",
                                 "comparison": "resumed vs uninterrupted twin: node (space, expanded, skipped) sets, (parent, child, motif list) edges, attractor answers; ids not compared"},
                         assumptions=["a solver failure is modelled as RuntimeError raised by an ASP solver call (trappist, compute_fixed_point_reduced_STG); failures of BDD operations are outside the property's quantifier",
                                      "contract stubs of DESIGN.md §8 validated on every representative"])
