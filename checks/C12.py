"""C12 — attractor sets are the complete attractors and the symbolic fallback agrees.
E-CAB (fine mode for attractor_symbolic, engine/fine.py; coarse cross-check): every path class runs the real node_attractor_sets / node_attractor_seeds
(symbolic_fallback=True under a tiny candidate limit) on a symbolic node of a prefix history.  The content of
every returned VertexSet is an observation against the forward closure of its seed over the symbolic truth
table (a wrong set is a violation at that representative), and z3 decides for the class that the closure of
each seed is its attractor, in seed order, over all network variables; the fallback's attractor family is
compared with the default method's on a twin diagram.
In fine mode the BDD-size heuristic is concretised (the sets it inspects are pinned), so the loop's path is
class-constant; in coarse mode the inside of symbolic_attractor_test is validated per representative."""
from __future__ import annotations
import z3
from engine import specs, ops, symnet
from engine.symnet import in_space
from engine.cab import CTX, SymInt, explore
from engine.ref import ConcreteNet
from checks import hist, common

PROP = "C12"
FUNCTIONS = ["SuccessionDiagram.node_attractor_sets", "SuccessionDiagram.node_attractor_seeds(symbolic_fallback)", "compute_attractors_symbolic",
             "symbolic_attractor_test", "symbolic_attractor_fallback", "SuccessionDiagram.reclaim_node_data"]
PREFIXES = [(), ("succ",), ("fullbfs",), ("seeds",), ("cands",), ("succ", "cands"), ("seeds", "reclaim"), ("succ", "seeds", "reclaim"), ("succ", "skiprem"), ("bfs",)]


def execute(rules, prefix, H, names, symbolic):
    from biobalm import SuccessionDiagram
    sk = tuple(prefix) + ("sets", "seeds")
    sd, trace = hist.run_history(rules, sk, H, names, attractors=True)
    out = {"trace": trace}
    # twin: same prefix, then the symbolic fallback forced by a zero candidate limit
    cfg = SuccessionDiagram.default_config()
    sk2 = tuple(prefix)
    sd2, tr2 = hist.run_history(rules, sk2, H, names, attractors=True)
    last = trace[-2]
    if last["op"] is not None and last["rec"]["exc"] is None:
        nid = last["op"]["node"]
        nd2 = sd2.node_data(nid)
        if nd2["attractor_seeds"] is None:
            sd2.config["attractor_candidates_limit"] = 0
            sd2.config["retained_set_optimization_threshold"] = 0
            r = ops.guarded(lambda: [ops._t(names, s) for s in sd2.node_attractor_seeds(nid, compute=True, symbolic_fallback=True)])
            sd2b, r2 = ops.apply_op(sd2, {"op": "sets", "node": nid}, names)
            out["fallback"] = {"seeds": r, "sets": r2}
    return out


def assertion(B, out):
    parts = []
    tr = out["trace"]
    for k, ent in enumerate(tr[:-2]):
        parts.append((f"prefix op {k} {ent['kind']} raised {ent['rec']['exc']}", B.const(ent["rec"]["exc"] is None)))
    e_sets, e_seeds = tr[-2], tr[-1]
    if e_sets["rec"].get("skipped"):
        return parts
    parts.append((f"node_attractor_sets raised {e_sets['rec']['exc']}: {e_sets['rec'].get('msg')}", B.const(e_sets["rec"]["exc"] is None)))
    parts.append((f"node_attractor_seeds raised {e_seeds['rec']['exc']}", B.const(e_seeds["rec"]["exc"] is None)))
    if e_sets["rec"]["exc"] or e_seeds["rec"]["exc"]:
        return parts
    sets = [[tuple(x) for x in s] for s in e_sets["rec"]["ret"]]
    seeds = [tuple(s) for s in e_seeds["rec"]["ret"]]
    nid = e_sets["op"]["node"]
    nd = specs.node_by_id(e_sets["dump"])[nid]
    S = nd["space"]
    parts.append(("one set per seed, in the order of the seeds", B.const(len(sets) == len(seeds) and all(s in st for s, st in zip(seeds, sets)))))
    for s, st in zip(seeds, sets):
        parts.append((f"set of seed {s}: states are total and inside the node space", B.const(all(len(x) == B.n and in_space(x, S) for x in st))))
        for y in B.states:
            parts.append((f"set of seed {s} contains {y} iff {y} is in the attractor of the seed",
                          B.Iff(B.And(B.attr(s), B.reach(s, y)), B.const(y in st))))
    fb = out.get("fallback")
    if fb is not None:
        parts.append((f"fallback raised {fb['seeds']['exc']} / {fb['sets']['exc']}", B.const(fb["seeds"]["exc"] is None and fb["sets"]["exc"] is None)))
        if fb["seeds"]["exc"] is None and fb["sets"]["exc"] is None:
            fam1 = sorted(sorted(map(tuple, st)) for st in sets)
            fam2 = sorted(sorted(map(tuple, st)) for st in fb["sets"]["ret"])
            parts.append(("symbolic fallback yields the same attractors as the default method", B.const(fam1 == fam2)))
            parts.append(("fallback seeds lie in their sets, in order", B.const(all(tuple(s) in [tuple(x) for x in st] for s, st in zip(fb["seeds"]["ret"], fb["sets"]["ret"])))))
    return parts


def run_task(task):
    from engine import oracles
    oracles.install()
    oracles.LIST_ORDER = "canonical"
    from engine import fine
    fine.ENABLED["on"] = bool(task["params"].get("fine"))
    fine.ENABLED["size_mode"] = task["params"].get("size_mode", "real") if task["params"].get("order", "canonical") != "real" else "real"
    net = symnet.family(task["family"])
    prefix = tuple(task["params"]["prefix"])
    vs, cs = hist.declare(prefix + ("sets", "seeds"), net.n)
    k = len(prefix)
    cs.append(z3.Int(f"h{k}_node") == z3.Int(f"h{k + 1}_node"))
    if task["params"].get("free_inputs"):
        fv, fc = hist.declare_free(net)
        vs, cs = vs + fv, cs + fc
    H = hist.SymH(net.n)
    selftest = task["params"].get("selftest")

    def harness(ctx, rules):
        oracles.AEON_TEXT.clear()
        hist.set_presentation(H, net.names, task["params"])
        out = execute(rules, prefix, H, net.names, True)
        # the content of every returned set is read by the caller (and by the assertion below): an observation.  Without
        # it the representative's content would be used as a constant for class members whose closure differs.
        for rec in ctx.symsets:
            for ss in (rec["sets"] or []):
                for y, f in ss.d.items():
                    ctx.obs(f)
        parts = assertion(net, out)
        # fine mode: every closure computed by the real symbolic_attractor_test in this run has a denotation over the
        # symbolic truth table; z3 decides closure == forward-reachable set of its seed for the whole class
        for rec in ctx.symsets:
            if rec["sets"] is None:
                continue
            for sx, ss in zip(rec["seeds"], rec["sets"]):
                for y, f in ss.d.items():
                    parts.append((f"[class level] closure of seed {sx} (node {rec['node']}) contains {y} iff reachable from the seed",
                                  net.Iff(f, net.reach(sx, y))))
        if selftest:
            parts.append(("selftest", net.FALSE))
        return specs.conj(net, parts), {"sets": out["trace"][-2]["rec"]["ret"], "fallback": "fallback" in out}
    cube = [net.bits[i] if v else z3.Not(net.bits[i]) for i, v in task.get("cube", [])]
    res = explore(net, harness, extra_vars=vs, extra_constraints=cs, cube=cube, timebox=task["timebox"], seed=task.get("seed", 0), label=task["label"],
                  start_at=task.get("start_at"), max_classes=task.get("max_classes"))
    res["violations"] = res["violations"][:4] + [{"rules": v["rules"], "hist": v["hist"], "kind": v["kind"]} for v in res["violations"][4:40]]
    return res


def replay(rec):
    B = ConcreteNet.from_bnet(rec["rules"])
    H = hist.ConcH(rec.get("hist", {}))
    hist.set_presentation(H, B.names, rec["params"])
    out = execute(rec["rules"], tuple(rec["params"]["prefix"]), H, B.names, False)
    parts = assertion(B, out)
    if rec["params"].get("selftest"):
        parts.append(("selftest", False))
    failing = specs.failing_parts(B, parts)
    return {"reproduces": bool(failing), "failing": failing[:6], "signature": None}


def tasks(tier, seed, selftest=False):
    T = []
    q = tier == "quick"

    def add(fam, prefix, box, cube_k=0, nbits=0, fine=True, size_mode="real", free=False):
        base = {"prop": PROP, "family": fam, "label": f"{fam}/{'+'.join(prefix) or 'fresh'}/{'fine' if fine else 'coarse'}" + ("" if size_mode == "real" else "/" + size_mode) + ("/free-inputs" if free else ""), "timebox": box, "seed": seed,
                "params": {"prefix": list(prefix), "selftest": selftest, "fine": fine, "size_mode": size_mode, "free_inputs": free}}
        if cube_k:
            for cube in common.cubes(nbits, cube_k):
                T.append(dict(base, cube=cube))
        else:
            T.append(base)
    if selftest:
        add("U2", (), 60)
        return T
    for p in PREFIXES:
        add("U2", p, 25 if q else 900)
        add("D3", p, 25 if q else 1200)
    # inputs presented as FREE INPUTS (no update function): the unexpanded root then still contains the inputs
    for p in ((), ("succ",), ("seeds", "reclaim")):
        add("D3", p, 15 if q else 900, free=True)
        add("D3", p, 15 if q else 900, fine=False, free=True)
        add("S1C2", p, 15 if q else 900, fine=False, free=True)
    for p in ((), ("succ",), ("seeds",)):
        add("N3", p, 25 if q else 900)
    for p in ((), ("seeds",)):
        add("TWOATT3", p, 10 if q else 600)      # a minimal trap space with two attractors
    # skip nodes that hold a motif-avoidant attractor, asked after other nodes were answered: default method and
    # symbolic fallback must agree there too
    for p in (("succ", "skiprem", "seeds"), ("succ", "skiprem")):
        add("P:MAA3+SRC1", p, 25 if q else 900, fine=False)      # every variable in the NFVS: several candidates survive in minimal nodes
    for p in ((), ("succ",), ("cands",)):
        # decision points: the size heuristic's answer is substituted (always decline / always accept forward growth),
        # so the verdict on the reachability loop does not depend on AEON's BDD sizes
        for mode in ("decline", "accept"):
            add("U2", p, 15 if q else 600, size_mode=mode)
            add("D3", p, 20 if q else 900, size_mode=mode)
    for p in ((), ("succ",), ("fullbfs",)):
        # the coarse region oracle (REACH spec of compute_attractors_symbolic) cross-checks the fine handles
        add("U2", p, 15 if q else 600, fine=False)
        add("D3", p, 15 if q else 600, fine=False)
    if not q:
        for p in ((), ("succ",), ("fullbfs",)):
            add("U3", p, 600, cube_k=4, nbits=24)
    return T


def main(tier, seed, t0, selftest=False):
    results = common.run_tasks(tasks(tier, seed, selftest))
    return common.finish(PROP, tier, seed, "model_checking", results, t0, selftest=selftest, functions=FUNCTIONS,
                         bounds={"node": "any node (symbolic id) after a prefix history from " + str(PREFIXES) + " (sets before/after seeds and candidates, after reclaim, on skip nodes)",
                                 "fallback": "forced on a twin diagram by attractor_candidates_limit=0 + symbolic_fallback=True; attractor families compared",
                                 "families": "U2, D3 time-boxed (quick); + U3 cubes (thorough)",
                                 "mode": "fine (default): vertex sets inside compute_attractors_symbolic / symbolic_attractor_test carry a denotation over the symbolic truth table, so the reachability loop's path is class-constant and closure == REACH is decided for the class; coarse tasks keep the region oracle as a cross-check"},
                         assumptions=["AEON Attractors.transition_guided_reduction / xie_beerel / Reachability.reach_bwd: native, inside the fallback region; its result is validated against the definition on every representative",
                                      "contract stubs of DESIGN.md §8"])
