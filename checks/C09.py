"""C09 — the trap-space solver returns exactly the requested trap spaces.
E-LIFT: the real _create_clingo_constraints / _create_clingo_fixed_point_constraints /
compute_fixed_point_reduced_STG_async (net surgery) / _clingo_model_to_space / _clingo_model_to_fixed_point
are executed on the generic Petri net G_n; the rule sets they emit per transition shape, per avoided
subspace, per source variable, per ensure value and per retained value are lifted with selector Booleans
and z3 proves, for ALL networks and ALL implicant covers with n variables at once, that the classical
models of the emitted program are exactly the spaces of the definition.  clingo's own enumeration is a
contract (subset-minimal / -maximal models under --enum-mod=domRec), validated in every E-CAB run."""
from __future__ import annotations
import itertools
import json
import multiprocessing as mp
import os
import random
import sys
import time
import z3

from lift.generic import (Recorder, base_net, add_tr, shapes as mk_shapes, enabled, clauses_of, multiset_minus,
                          FakeModel, NAMES)
from checks import common

PROP = "C09"
FUNCTIONS = ["trappist_core._create_clingo_constraints", "trappist_core._clingo_model_to_space",
             "trappist_core._create_clingo_fixed_point_constraints", "trappist_core.compute_fixed_point_reduced_STG_async (net surgery)",
             "trappist_core._clingo_model_to_fixed_point", "petri_net_translation.variable_to_place/place_to_variable"]


class Setup:
    def __init__(self, n):
        import biobalm.trappist_core as TC
        self.TC = TC
        TC.Control = Recorder
        self.n = n
        self.names = list(NAMES[:n])
        self.states = list(itertools.product((0, 1), repeat=n))
        self.subspaces = list(itertools.product((0, 1, None), repeat=n))
        self.shapes = mk_shapes(self.names)
        self.F = {v: {x: z3.Bool(f"F_{v}_{''.join(map(str, x))}") for x in self.states} for v in self.names}
        self.P = [z3.Bool(f"p_{i}") for i in range(len(self.shapes))]
        self.atoms = [f"b{b}_{v}" for v in self.names for b in (0, 1)]
        self.A = {a: z3.Bool("A_" + a) for a in self.atoms}
        cover = []
        for vi, v in enumerate(self.names):
            for x in self.states:
                for up in (True, False):
                    lhs = z3.Or([self.P[i] for i, sh in enumerate(self.shapes) if sh[0] == v and sh[1] == up and enabled(self.names, sh, x)])
                    if x[vi] == (0 if up else 1):
                        want = self.F[v][x] if up else z3.Not(self.F[v][x])
                    else:
                        want = z3.BoolVal(False)
                    cover.append(lhs == want)
        self.COVER = z3.And(cover)
        # polarity tables from the real converters
        self.pol_space = {}
        self.pol_fix = {}
        for a in self.atoms:
            d = TC._clingo_model_to_space(FakeModel([a]))
            (k, val), = d.items()
            self.pol_space[a] = (k, int(val))
            d = TC._clingo_model_to_fixed_point(FakeModel([a]))
            (k, val), = d.items()
            self.pol_fix[a] = (k, int(val))

    def sdict(self, S):
        return {self.names[i]: S[i] for i in range(self.n) if S[i] is not None}

    def emit(self, pn, **kw):
        ctl = self.TC._create_clingo_constraints(sorted(self.names), pn, **kw)
        return ctl.args, ctl.rules

    def fixed(self, table, v, b):
        """formula: the space denoted by the atom valuation fixes v to b"""
        return z3.Or([self.A[a] for a in self.atoms if table[a] == (v, b)])


SELFTEST = {"on": False}


def interpret_options(args, problem):
    """documented clingo contract for the options biobalm passes"""
    norm = [a.replace(" ", "") for a in args]
    if "0" not in norm:
        return None, "solution count option '0' (all models) missing"
    if "--heuristic=Domain" not in norm or "--enum-mod=domRec" not in norm:
        return None, "domain-recursive enumeration options missing: " + str(args)
    if "--dom-mod=3,16" in norm:
        return "max_atoms", None
    if "--dom-mod=5,16" in norm:
        return "min_atoms", None
    return None, "unknown --dom-mod: " + str(args)


def trappist_config(S, problem, reverse, ens, rng):
    """one lifted query: all networks, covers, avoid lists and source lists for (problem, reverse, ensure)"""
    n, names = S.n, S.names
    ensure = S.sdict(ens)
    kw = dict(problem=problem, reverse_time=reverse, ensure_subspace=ensure)
    args0, R0 = S.emit(base_net(names), avoid_subspaces=[], optimize_source_variables=[], **kw)
    pref, err = interpret_options(args0, problem)
    if err:
        return {"status": "unmodelled", "detail": err}
    need = {"min": "max_atoms", "max": "min_atoms", "fix": None}[problem]
    if need is not None and pref != need:
        return {"status": "violation", "detail": f"problem {problem}: options {args0} enumerate {pref} models, the definition needs {need}",
                "cex": {"kind": "options", "problem": problem, "reverse": reverse, "ensure": ensure}}
    base_cs, chosen, facts = clauses_of(R0, S.A)
    if chosen != set(S.A):
        return {"status": "unmodelled", "detail": f"atoms without choice rule: {sorted(set(S.A) - chosen)}"}
    prog = list(base_cs)
    shape_rules = []
    for i, sh in enumerate(S.shapes):
        g = base_net(names)
        add_tr(g, *sh, 1)
        _, Ri = S.emit(g, avoid_subspaces=[], optimize_source_variables=[], **kw)
        extra = multiset_minus(Ri, R0)
        shape_rules.append(extra)
        cs, _, _ = clauses_of(extra, S.A)
        prog += [z3.Implies(S.P[i], c) for c in cs]
    avoid_spaces = [X for X in S.subspaces if any(x is not None for x in X)]
    Q = {X: z3.Bool("q_" + "".join("x" if x is None else str(x) for x in X)) for X in avoid_spaces}
    avoid_rules = {}
    for X in avoid_spaces:
        _, Ri = S.emit(base_net(names), avoid_subspaces=[S.sdict(X)], optimize_source_variables=[], **kw)
        extra = multiset_minus(Ri, R0)
        avoid_rules[X] = extra
        cs, _, _ = clauses_of(extra, S.A)
        prog += [z3.Implies(Q[X], c) for c in cs]
    RS = {v: z3.Bool("src_" + v) for v in names}
    src_rules = {}
    for v in names:
        _, Ri = S.emit(base_net(names), avoid_subspaces=[], optimize_source_variables=[v], **kw)
        extra = multiset_minus(Ri, R0)
        src_rules[v] = extra
        cs, _, _ = clauses_of(extra, S.A)
        prog += [z3.Implies(RS[v], c) for c in cs]
    # locality premise on random sub-nets / lists
    for _ in range(3):
        g = base_net(names)
        idx = rng.sample(range(len(S.shapes)), min(4, len(S.shapes)))
        for j, i in enumerate(idx):
            add_tr(g, *S.shapes[i], j + 1)
        av = rng.sample(avoid_spaces, 2)
        sr = rng.sample(names, min(2, n))
        _, Rall = S.emit(g, avoid_subspaces=[S.sdict(X) for X in av], optimize_source_variables=sr, **kw)
        expect = list(R0)
        for i in idx:
            expect += shape_rules[i]
        for X in av:
            expect += avoid_rules[X]
        for v in sr:
            expect += src_rules[v]
        if sorted(Rall) != sorted(expect):
            return {"status": "unmodelled", "detail": "locality premise failed: rules of a sub-net are not the union of per-item rules"}
    # the definition
    tab = S.pol_space
    fx = lambda v, b: S.fixed(tab, v, b)
    conj = []
    for v in names:
        conj.append(z3.Not(z3.And(fx(v, 0), fx(v, 1))))

    def memb(x):
        return z3.And([z3.Implies(fx(v, b), x[i] == b) for i, v in enumerate(names) for b in (0, 1)])
    for i, v in enumerate(names):
        for b in (0, 1):
            for x in S.states:
                if not reverse:
                    conj.append(z3.Implies(z3.And(fx(v, b), memb(x)), S.F[v][x] == bool(b)))
                elif x[i] == b:
                    y = list(x)
                    y[i] = 1 - b
                    y = tuple(y)
                    # time reversal: no transition may *enter* the space
                    conj.append(z3.Implies(z3.And(fx(v, b), memb(x)), S.F[v][y] == bool(1 - b)))
    for v, b in ensure.items():
        conj.append(fx(v, b))
    for X in avoid_spaces:
        inside = z3.And([fx(names[i], X[i]) for i in range(n) if X[i] is not None])
        conj.append(z3.Implies(Q[X], z3.Not(inside)))
    if problem == "fix":
        for v in names:
            conj.append(z3.Or(fx(v, 0), fx(v, 1)))
    if problem == "max":
        free = [v for v in names if v not in ensure]
        if free:
            conj.append(z3.Or([fx(v, b) for v in free for b in (0, 1)]))
            for v in free:
                conj.append(z3.Implies(RS[v], z3.Or(fx(v, 0), fx(v, 1))))
    spec = z3.And(conj)
    if SELFTEST["on"]:
        spec = z3.And(spec, z3.BoolVal(False))       # vacuity twin: must come back sat and be reported
    s = z3.Solver()
    s.set("timeout", 120000)
    s.add(S.COVER)
    s.add(z3.Xor(z3.And(prog), spec))
    t0 = time.time()
    r = s.check()
    dt = time.time() - t0
    if r == z3.unsat:
        return {"status": "unsat", "z3_s": dt}
    if r != z3.sat:
        return {"status": "unknown", "z3_s": dt}
    m = s.model()
    tv = lambda e: bool(z3.is_true(m.eval(e, model_completion=True)))
    cex = {"kind": "trappist", "selftest": SELFTEST["on"], "n": n, "problem": problem, "reverse": reverse, "ensure": ensure,
           "tables": {v: [int(tv(S.F[v][x])) for x in S.states] for v in names},
           "cover": [i for i in range(len(S.shapes)) if tv(S.P[i])],
           "avoid": [S.sdict(X) for X in avoid_spaces if tv(Q[X])],
           "sources": [v for v in names if tv(RS[v])],
           "atoms": [a for a in S.atoms if tv(S.A[a])]}
    return {"status": "sat", "cex": cex, "z3_s": dt}


def rfp_config(S, rng):
    """reduced-STG fixed points: one query for all networks, covers, retained sets, ensure and avoid spaces"""
    n, names, TC = S.n, S.names, S.TC

    def emit(pn, retained, ensure, avoid):
        Recorder.last = None
        try:
            TC.compute_fixed_point_reduced_STG_async(pn, retained, on_solution=lambda x: True, ensure_subspace=ensure, avoid_subspaces=avoid)
        except RuntimeError:
            pass
        return Recorder.last.args, Recorder.last.rules
    args0, R0 = emit(base_net(names), {}, {}, [])
    pref, err = interpret_options(args0, "fix")
    if err:
        return {"status": "unmodelled", "detail": err}
    base_cs, chosen, _ = clauses_of(R0, S.A)
    if chosen != set(S.A):
        return {"status": "unmodelled", "detail": "atoms without choice rule"}
    prog = list(base_cs)
    # retained value per variable: RHO[v] in {None,0,1} as two Booleans
    RH = {v: (z3.Bool(f"rho_{v}_set"), z3.Bool(f"rho_{v}_val")) for v in names}

    def rho_is(v, val):
        st, vl = RH[v]
        if val is None:
            return z3.Not(st)
        return z3.And(st, vl if val else z3.Not(vl))
    shape_rules = {}
    for i, sh in enumerate(S.shapes):
        v = sh[0]
        for val in (None, 0, 1):
            g = base_net(names)
            add_tr(g, *sh, 1)
            _, Ri = emit(g, {} if val is None else {v: val}, {}, [])
            extra = multiset_minus(Ri, R0)
            shape_rules[i, val] = extra
            cs, _, _ = clauses_of(extra, S.A)
            prog += [z3.Implies(z3.And(S.P[i], rho_is(v, val)), c) for c in cs]
        # retained values of *other* variables must not change this transition's rules
        for u in names:
            if u != v:
                g = base_net(names)
                add_tr(g, *sh, 1)
                _, Ri = emit(g, {u: 1}, {}, [])
                if sorted(multiset_minus(Ri, R0)) != sorted(shape_rules[i, None]):
                    return {"status": "unmodelled", "detail": "retained value of another variable changes a transition's rules"}
    EN = {(v, b): z3.Bool(f"ens_{v}_{b}") for v in names for b in (0, 1)}
    for (v, b), sel in EN.items():
        _, Ri = emit(base_net(names), {}, {v: b}, [])
        cs, _, _ = clauses_of(multiset_minus(Ri, R0), S.A)
        prog += [z3.Implies(sel, c) for c in cs]
    avoid_spaces = list(S.subspaces)      # including the whole space (emits #false)
    Q = {X: z3.Bool("q_" + "".join("x" if x is None else str(x) for x in X)) for X in avoid_spaces}
    for X in avoid_spaces:
        _, Ri = emit(base_net(names), {}, {}, [S.sdict(X)])
        cs, _, _ = clauses_of(multiset_minus(Ri, R0), S.A)
        prog += [z3.Implies(Q[X], c) for c in cs]
    # locality sample
    for _ in range(3):
        g = base_net(names)
        idx = rng.sample(range(len(S.shapes)), min(5, len(S.shapes)))
        for j, i in enumerate(idx):
            add_tr(g, *S.shapes[i], j + 1)
        ret = {v: rng.randint(0, 1) for v in rng.sample(names, rng.randint(0, n))}
        _, Rall = emit(g, ret, {}, [])
        expect = list(R0)
        for i in idx:
            expect += shape_rules[i, ret.get(S.shapes[i][0])]
        if sorted(Rall) != sorted(expect):
            return {"status": "unmodelled", "detail": "locality premise failed for the reduced net"}
    tab = S.pol_fix
    fx = lambda v, b: S.fixed(tab, v, b)
    conj = []
    for v in names:
        conj.append(z3.Not(z3.And(fx(v, 0), fx(v, 1))))
        conj.append(z3.Or(fx(v, 0), fx(v, 1)))

    def is_state(x):
        return z3.And([fx(v, x[i]) for i, v in enumerate(names)])
    for x in S.states:
        for i, v in enumerate(names):
            stable = S.F[v][x] == bool(x[i])
            conj.append(z3.Implies(is_state(x), z3.Or(rho_is(v, x[i]), stable)))
    for (v, b), sel in EN.items():
        conj.append(z3.Implies(sel, fx(v, b)))
    for X in avoid_spaces:
        inside = z3.And([fx(names[i], X[i]) for i in range(n) if X[i] is not None])
        conj.append(z3.Implies(Q[X], z3.Not(inside)))
    spec = z3.And(conj)
    s = z3.Solver()
    s.set("timeout", 300000)
    s.add(S.COVER)
    for v in names:   # ensure is a space: at most one value per variable
        s.add(z3.Not(z3.And(EN[v, 0], EN[v, 1])))
    s.add(z3.Xor(z3.And(prog), spec))
    t0 = time.time()
    r = s.check()
    dt = time.time() - t0
    if r == z3.unsat:
        return {"status": "unsat", "z3_s": dt}
    if r != z3.sat:
        return {"status": "unknown", "z3_s": dt}
    m = s.model()
    tv = lambda e: bool(z3.is_true(m.eval(e, model_completion=True)))
    cex = {"kind": "rfp", "n": n, "tables": {v: [int(tv(S.F[v][x])) for x in S.states] for v in names},
           "cover": [i for i in range(len(S.shapes)) if tv(S.P[i])],
           "retained": {v: int(tv(RH[v][1])) for v in names if tv(RH[v][0])},
           "ensure": {v: b for (v, b), sel in EN.items() if tv(sel)},
           "avoid": [S.sdict(X) for X in avoid_spaces if tv(Q[X])],
           "atoms": [a for a in S.atoms if tv(S.A[a])]}
    return {"status": "sat", "cex": cex, "z3_s": dt}


def order_lemma(S):
    """more atoms = smaller space (so subset-maximal atom sets are the inclusion-minimal spaces): checked
    with the real converter on every conflict-free atom set"""
    TC = S.TC
    sets = []
    for X in S.subspaces:
        atoms = [a for a in S.atoms if S.pol_space[a][0] in S.sdict(X) and S.sdict(X)[S.pol_space[a][0]] == S.pol_space[a][1]]
        sp = TC._clingo_model_to_space(FakeModel(atoms))
        if sp != S.sdict(X):
            return False
        sets.append((set(atoms), sp))
    for a, sa in sets:
        for b, sb in sets:
            if a <= b and not all(k in sb and sb[k] == v for k, v in sa.items()):
                return False
    return True


_SETUP = {}


def _worker(job):
    try:
        fd = os.open(os.path.join(common.ROOT, "scratch", "worker_stderr.log"), os.O_WRONLY | os.O_CREAT | os.O_APPEND)
        os.dup2(fd, 2)
    except OSError:
        pass
    n = job["n"]
    try:
        if n not in _SETUP:
            _SETUP[n] = Setup(n)
        S = _SETUP[n]
        rng = random.Random(job.get("seed", 0))
        if job["kind"] == "trappist":
            r = trappist_config(S, job["problem"], job["reverse"], tuple(job["ens"]), rng)
        elif job["kind"] == "rfp":
            r = rfp_config(S, rng)
        else:
            r = {"status": "unsat" if order_lemma(S) else "violation", "detail": "order lemma"}
    except Exception as e:
        # the emitted program no longer has the structure the lifting relies on (a rule family appeared / disappeared):
        # the lifted encoding does not answer; the API harness and the per-model engine still decide the property
        r = {"status": "unmodelled", "detail": f"lifting failed: {type(e).__name__}: {e}"[:200]}
    r["job"] = job
    return r


def replay(rec):
    """real trappist / compute_fixed_point_reduced_STG with real clingo on the counterexample network, judged
    by the explicit reference"""
    import itertools as it
    from engine.ref import ConcreteNet, refines
    from biodivine_aeon import BooleanNetwork
    from biobalm.trappist_core import trappist, compute_fixed_point_reduced_STG
    if rec.get("mode") == "api":
        from checks import c09_api
        return c09_api.replay(rec)
    if rec.get("mode") == "models":
        from checks import c09_models
        return c09_models.replay(rec)
    c = rec["cex"]
    if c.get("selftest"):
        return {"reproduces": True, "failing": ["selftest"], "signature": None}
    if c["kind"] == "options":
        return {"reproduces": True, "failing": ["solver options do not select the required models"], "signature": None}
    n = c["n"]
    names = list(NAMES[:n])
    states = list(it.product((0, 1), repeat=n))
    tables = [c["tables"][v] for v in names]
    B = ConcreteNet(names, tables)
    shp = mk_shapes(names)

    def rules_text():
        lines = []
        for v in range(n):
            terms = ["(" + " & ".join((names[j] if x[j] else "!" + names[j]) for j in range(n)) + ")" for i, x in enumerate(states) if tables[v][i]]
            f = " | ".join(terms) if terms else "false"
            if len(terms) == len(states):
                f = "true"
            lines.append(f"{names[v]}, {f}")
        return "\n".join(lines) + "\n"

    def pn_of_cover():
        g = base_net(names)
        for j, i in enumerate(c["cover"]):
            add_tr(g, *shp[i], j + 1)
        return g
    t = lambda d: tuple(d.get(nm) for nm in names)
    failing = []
    for route in ("bnet", "cover"):
        net = BooleanNetwork.from_bnet(rules_text()) if route == "bnet" else pn_of_cover()
        if c["kind"] == "trappist":
            if route == "cover":
                pass
            got = trappist(net, problem=c["problem"], reverse_time=c["reverse"], ensure_subspace=c["ensure"],
                           avoid_subspaces=c["avoid"], optimize_source_variables=c["sources"])
            gs = sorted(map(str, (t(g) for g in got)))
            ens = t(c["ensure"])
            avoid = [t(a) for a in c["avoid"]]
            srcs = [names.index(v) for v in c["sources"]]
            if c["reverse"]:
                # reference for the time-reversed network
                def rtrap(M):
                    for x in B.states:
                        if all(s is None or s == xi for xi, s in zip(x, M)):
                            for v in range(n):
                                if M[v] is not None:
                                    y = list(x); y[v] = 1 - M[v]; y = tuple(y)
                                    if B.fval(v, y) == bool(M[v]):
                                        return False
                    return True
                cands = [M for M in B.subspaces if refines(M, ens) and not any(refines(M, a) for a in avoid)]
                if c["problem"] == "max":
                    free = [v for v in range(n) if ens[v] is None]
                    if free:
                        cands = [M for M in cands if any(M[v] is not None for v in free) and all(M[s] is not None for s in srcs)]
                if c["problem"] == "fix":
                    cands = [M for M in cands if all(v is not None for v in M)]
                traps = [M for M in cands if rtrap(M)]
                if c["problem"] == "max":
                    want = [M for M in traps if not any(M2 != M and refines(M, M2) for M2 in traps)]
                elif c["problem"] == "min":
                    want = [M for M in traps if not any(M2 != M and refines(M2, M) for M2 in traps)]
                else:
                    want = traps
            else:
                spec = B.trappist_spec(c["problem"], (None,) * n, None, ens, tuple(srcs) if c["problem"] == "max" else (), tuple(avoid))
                want = [M for M, ok in spec.items() if ok]
            ws = sorted(map(str, want))
            if gs != ws:
                failing.append(f"[{route}] trappist returned {gs}, definition gives {ws}")
        else:
            pn = net if route == "cover" else __import__("biobalm.petri_net_translation", fromlist=["x"]).network_to_petrinet(net)
            got = compute_fixed_point_reduced_STG(pn, c["retained"], ensure_subspace=c["ensure"], avoid_subspaces=c["avoid"])
            gs = sorted(map(str, (t(g) for g in got)))
            ret = {names.index(k): v for k, v in c["retained"].items()}
            spec = B.rfp_spec((None,) * n, None, ret, t(c["ensure"]), tuple(t(a) for a in c["avoid"]))
            ws = sorted(map(str, [y for y, ok in spec.items() if ok]))
            if gs != ws:
                failing.append(f"[{route}] reduced-STG solver returned {gs}, definition gives {ws}")
        if failing:
            break
    return {"reproduces": bool(failing), "failing": failing[:3], "signature": None}


def run_task(task):
    if task["params"].get("mode") == "models":
        from checks import c09_models
        return c09_models.run_task(task)
    from checks import c09_api
    return c09_api.run_task(task)


def main(tier, seed, t0, selftest=False):
    os.makedirs(os.path.join(common.ROOT, "scratch"), exist_ok=True)
    # public entry points over symbolic networks (checks/c09_api.py)
    api_tasks = [] if selftest else [
        {"prop": PROP, "family": fam, "label": f"api/{fam}", "timebox": box, "seed": seed, "params": {"mode": "api"}}
        for fam, box in (("U2", 40 if tier == "quick" else 600), ("S1C2", 40 if tier == "quick" else 600), ("D3", 40 if tier == "quick" else 900))]
    # published models: answers of the real trappist() decided by z3 over the validated Petri net (checks/c09_models.py)
    if not selftest:
        import glob
        mdir = os.path.join(os.environ.get("VERIF_REPO", "/repo"), "models/bbm-bnet-inputs-true")
        paths = sorted(glob.glob(os.path.join(mdir, "*.bnet")), key=os.path.getsize)
        small, rest = paths[:150], paths[150:]
        for i in range(0, len(small), 15):
            api_tasks.append({"prop": PROP, "family": "-", "label": "models/small", "timebox": 15, "seed": seed, "params": {"mode": "models", "models": small[i:i + 15], "max_calls": 12}})
        for i in range(0, len(rest), 3):
            api_tasks.append({"prop": PROP, "family": "-", "label": "models/large", "timebox": 20 if tier == "quick" else 120, "seed": seed,
                              "params": {"mode": "models", "models": rest[i:i + 3], "max_calls": 4 if tier == "quick" else 12}})
    api_results = common.run_tasks(api_tasks) if api_tasks else []
    ns = [2, 3] if tier == "quick" else [2, 3, 4]
    jobs = []
    for n in ns:
        subs = list(itertools.product((0, 1, None), repeat=n))
        for problem in ("min", "max", "fix"):
            for reverse in (False, True):
                for ens in subs:
                    jobs.append({"kind": "trappist", "n": n, "problem": problem, "reverse": reverse, "ens": list(ens), "seed": seed})
        jobs.append({"kind": "rfp", "n": n, "seed": seed})
        jobs.append({"kind": "order", "n": n})
    if tier == "quick":
        # a slice of n=4: all problems/directions, ensure = whole space and singletons
        subs4 = [s for s in itertools.product((0, 1, None), repeat=4) if sum(1 for x in s if x is not None) <= 1]
        for problem in ("min", "max", "fix"):
            for reverse in (False, True):
                for ens in subs4:
                    jobs.append({"kind": "trappist", "n": 4, "problem": problem, "reverse": reverse, "ens": list(ens), "seed": seed})
    if selftest:
        jobs = [j for j in jobs if j["n"] == 2 and j["kind"] == "trappist"][:6]
        SELFTEST["on"] = True
    jobs.sort(key=lambda j: -j["n"])
    ctx = mp.get_context("fork")
    with ctx.Pool(common.NCPU) as pool:
        results = list(pool.imap_unordered(_worker, jobs, chunksize=1))
    unsat = [r for r in results if r["status"] == "unsat"]
    bad = [r for r in results if r["status"] in ("sat", "violation")]
    unk = [r for r in results if r["status"] in ("unknown", "unmodelled")]
    violations, nonrepro = [], []
    api_classes = sum(r.get("classes", 0) for r in api_results)
    for r in api_results:
        for i in r.get("inconclusive", []):
            unk.append({"status": "unknown", "detail": "api harness: " + str(i.get("reason")), "job": r.get("label")})
        for c in r.get("violations", [])[:3]:
            if c.get("kind") == "model":
                rec = {"property": PROP, "mode": "models", "rules": "", "hist": {}, "params": {"mode": "models"}, "info": c["info"]}
                v = common.replay_record(PROP, rec)
                (violations if v.get("reproduces") is True else nonrepro).append(({"cex": rec}, v))
                continue
            rec = {"property": PROP, "mode": "api", "rules": c["rules"], "hist": c.get("hist", {}), "params": {"mode": "api"}}
            v = common.replay_record(PROP, rec)
            (violations if v.get("reproduces") is True else nonrepro).append(({"cex": rec}, v))
    for r in bad[:4]:
        rec = {"property": PROP, "cex": r.get("cex", {"kind": "options"}), "job": r["job"], "detail": r.get("detail")}
        v = common.replay_record(PROP, rec)
        (violations if v.get("reproduces") is True else nonrepro).append((r, v))
    cov = {"programs": len(jobs), "disagreements_checked": len(bad),
           "samples": [r["job"] for r in unsat[:3]] or [{"note": "none"}],
           "obligations": len(jobs), "discharged": len(unsat),
           "api_path_classes": api_classes, "api_families": {r.get("label"): {"classes": r.get("classes"), "exhausted": r.get("exhausted")} for r in api_results},
           "queries": {"unsat": len(unsat), "sat": len(bad), "unknown": len(unk)},
           "z3_s": round(sum(r.get("z3_s", 0) for r in results), 2),
           "functions_encoded": FUNCTIONS,
           "bounds": {"n": ns + ([4] if tier == "quick" else []), "quantified": "all networks, all implicant covers, all avoid lists, all source lists (trappist); plus all retained sets and ensure spaces (reduced STG)",
                      "api": "real trappist()/compute_fixed_point_reduced_STG() on symbolic networks (U2, S1C2, D3), both input forms, symbolic problem / ensure / up to two avoided spaces / default-or-explicit sources / limit -1..4 / time direction",
                      "published models": "all 210 models: real trappist(min/max/fix) with ensure in {whole space, first node spaces} and avoid in {none, first answer, first two answers}; per call z3 decides over all subspaces of the validated Petri net that the answers are exactly the requested trap spaces (quick: 12 calls on the 150 smaller models, 4 on the others); forward time; calls cut off at 400 solutions are skipped",
                      "enumerated": "problem kind, time direction, ensure subspace (quick: n=4 only ensure with <= 1 fixed variable)",
                      "outside": "n > 4; DiGraphs that are not implicant covers; the avoid space {} for trappist (emits an empty-body constraint)"},
           "exhaustive": not bad and not unk}
    ev = {"property_id": PROP, "tier": tier, "seed": seed, "level": "translation_validation", "coverage": cov,
          "assumptions": ["clingo with --enum-mod=domRec --heuristic=Domain --dom-mod=3|5,16 enumerates exactly the subset-maximal|minimal classical models, each once (validated on every representative of every E-CAB run)",
                          "every atom has a choice rule, so stable models = classical models (checked on the captured program)",
                          "rules for a net are the union of per-transition rules (checked on random sub-nets each run)"],
          "wall_s": round(time.time() - t0, 2), "violations": len(violations)}
    with open(os.path.join(common.ROOT, "scratch" if selftest else "evidence", PROP + (".selftest.json" if selftest else ".json")), "w") as f:
        json.dump(ev, f, indent=1, default=str)
    code = 0
    if violations:
        for r, v in violations[:3]:
            print(f"VIOLATION property={PROP} replay={v['path']}")
            print("  failing:", v.get("failing"))
        code = 1
    elif nonrepro:
        print(f"INCONCLUSIVE property={PROP} reason=lifted counterexample did not reproduce with real clingo: {nonrepro[0][0].get('cex')} {nonrepro[0][1]}")
        code = 3
    elif unk:
        print(f"INCONCLUSIVE property={PROP} reason={unk[0]['status']}: {unk[0].get('detail')} job={unk[0]['job']}")
        code = 3
    print(f"{PROP} {tier}: api classes={api_classes}; lifted queries={len(jobs)} unsat={len(unsat)} sat={len(bad)} unknown={len(unk)} wall={ev['wall_s']}s exit={code}")
    return code
