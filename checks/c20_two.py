"""C20, is_subgraph / is_isomorphic across two *different* networks over the same variable names.
Two independent symbolic networks F and G (disjoint truth-table bits, same names); a diagram of each is built with
a symbolic operation (nothing / expand root / full bfs / limited bfs), and the real is_subgraph / is_isomorphic in
both directions are compared with inclusion / equality of the node-space and edge sets read from the dumps."""
from __future__ import annotations
import z3
from engine import specs, ops, symnet
from engine.cab import CTX, SymInt, explore
from engine.ref import ConcreteNet
from checks import hist

OPS = ["nop", "succ", "bfs", "fullbfs"]


def graph_sets(dump):
    sp = {n["id"]: n["space"] for n in dump["nodes"]}
    return set(sp.values()), {(sp[e["p"]], sp[e["c"]]) for e in dump["edges"]}


def build(rules, kind, prefix, H, names):
    from biobalm import SuccessionDiagram
    sd = SuccessionDiagram.from_rules(rules)
    op = hist.build_op(prefix, kind, H, sd, names)
    if op is not None and kind != "nop":
        sd, _ = ops.apply_op(sd, op, names)
    return sd


def execute(rulesF, rulesG, kindF, kindG, H, names, netG=None):
    from engine import oracles
    sdF = build(rulesF, kindF, 0, H, names)
    if netG is not None:
        with oracles.use_net(netG):
            sdG = build(rulesG, kindG, 1, H, names)
    else:
        sdG = build(rulesG, kindG, 1, H, names)
    out = {"F": ops.dump_sd(sdF, names, attractors=False), "G": ops.dump_sd(sdG, names, attractors=False)}
    out["sub_FG"] = ops.guarded(sdF.is_subgraph, sdG)
    out["sub_GF"] = ops.guarded(sdG.is_subgraph, sdF)
    out["iso"] = ops.guarded(sdF.is_isomorphic, sdG)
    return out


def assertion(B, out):
    parts = []
    for k in ("sub_FG", "sub_GF", "iso"):
        parts.append((f"{k} raised {out[k]['exc']}: {out[k].get('msg')}", B.const(out[k]["exc"] is None)))
    if any(out[k]["exc"] for k in ("sub_FG", "sub_GF", "iso")):
        return parts
    nf, ef = graph_sets(out["F"])
    ng, eg = graph_sets(out["G"])
    parts.append((f"is_subgraph(F, G) = inclusion of node and edge sets (nodes F {sorted(map(str, nf))[:4]}.. in G: {nf <= ng}, edges: {ef <= eg})",
                  B.const(out["sub_FG"]["ret"] == (nf <= ng and ef <= eg))))
    parts.append(("is_subgraph(G, F) = inclusion of node and edge sets", B.const(out["sub_GF"]["ret"] == (ng <= nf and eg <= ef))))
    parts.append(("is_isomorphic(F, G) = equality of node and edge sets", B.const(out["iso"]["ret"] == (nf == ng and ef == eg))))
    return parts


def run_task(task):
    from engine import oracles
    oracles.install()
    oracles.LIST_ORDER = "canonical"
    n = task["params"].get("n", 2)
    netF = symnet.SymNet(n, tag="F")
    netG = symnet.SymNet(n, tag="G")
    netF.views = [netG]
    kindF, kindG = task["params"]["kinds"]
    vs, cs = hist.declare((kindF, kindG), n)
    H = hist.SymH(n)
    selftest = task["params"].get("selftest")

    def harness(ctx, rules):
        rulesG = netG.rules_of_model(ctx.model)
        out = execute(rules, rulesG, kindF, kindG, H, netF.names, netG)
        parts = assertion(netF, out)
        if selftest:
            parts.append(("selftest", netF.FALSE))
        return specs.conj(netF, parts), {"rulesG": rulesG, "sub_FG": out["sub_FG"]["ret"], "iso": out["iso"]["ret"]}
    res = explore(netF, harness, extra_vars=vs, extra_constraints=cs + netG.defs, timebox=task["timebox"], seed=task.get("seed", 0),
                  label=task["label"], start_at=task.get("start_at"), max_classes=task.get("max_classes"))
    # the counterexample must carry G's rules too: the class representative's G is in info; for class counterexamples the
    # concrete values (is_subgraph results and dumps) are class-constant, so the representative's G is a valid witness
    out = []
    for v in res["violations"][:4]:
        v = dict(v)
        v["hist"] = dict(v.get("hist", {}), rulesG=v.get("info", {}).get("rulesG"), rulesF_rep=v.get("representative", v["rules"]))
        out.append(v)
    res["violations"] = out
    return res


def replay(rec):
    h = rec.get("hist", {})
    rulesF = h.get("rulesF_rep") or rec["rules"]
    rulesG = h.get("rulesG")
    B = ConcreteNet.from_bnet(rulesF)
    H = hist.ConcH(h)
    kindF, kindG = rec["params"]["kinds"]
    out = execute(rulesF, rulesG, kindF, kindG, H, B.names, None)
    parts = assertion(B, out)
    if rec["params"].get("selftest"):
        parts.append(("selftest", False))
    failing = specs.failing_parts(B, parts)
    return {"reproduces": bool(failing), "failing": failing[:4], "signature": {"site": "is_subgraph-foreign"} if failing else None}
