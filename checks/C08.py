"""C08 — attractor candidates cover every attractor under every option and limit setting.
E-CAB: real compute_attractor_candidates (+ run_simulation_minification, asp_greedy_retained_set_optimization,
make_heuristic_retained_set) on a node of a symbolic prefix history; the two option flags and the four numeric
configuration fields are solver variables."""
from __future__ import annotations
import z3
from engine import specs, ops, symnet
from engine.cab import CTX, SymInt, explore
from engine.ref import ConcreteNet
from checks import hist, common

PROP = "C08"
FUNCTIONS = ["compute_attractor_candidates", "run_simulation_minification", "asp_greedy_retained_set_optimization",
             "make_heuristic_retained_set", "SuccessionDiagram.node_attractor_candidates", "SuccessionDiagram.node_percolated_nfvs"]
CFG = {"cfg_thr": "retained_set_optimization_threshold", "cfg_lim": "attractor_candidates_limit",
       "cfg_sim": "minimum_simulation_budget", "cfg_nfvs": "nfvs_size_threshold"}
PREFIXES = [(), ("succ",), ("fullbfs",), ("bfs",), ("succ", "skiprem"), ("minp",), ("succ", "skiprem", "cands"), ("bfs", "skipall", "seeds")]


def declare(prefix, n, cfgmax):
    vs, cs = hist.declare(tuple(prefix) + ("cands",), n)
    for k in CFG:
        v = z3.Int(k)
        vs.append(v)
        cs += [v >= -1, v <= cfgmax]
    return vs, cs


def execute(rules, prefix, H, names, symbolic):
    from biobalm import SuccessionDiagram
    cfg = SuccessionDiagram.default_config()
    for k, field in CFG.items():
        if symbolic:
            if not CTX.obs(z3.Int(k) == -1):
                cfg[field] = SymInt(z3.Int(k))
        else:
            v = int(H.h.get(k, -1))
            if v != -1:
                cfg[field] = v
    skeleton = tuple(prefix) + ("cands",)
    sd, trace = hist.run_history(rules, skeleton, H, names, attractors=True, config=cfg)
    return {"trace": trace}


def assertion(B, out):
    parts = []
    trace = out["trace"]
    for k, ent in enumerate(trace[:-1]):
        if ent["kind"] in ("cands", "seeds") and ent["rec"]["exc"] == "RuntimeError" and "maximum amount of attractor candidates" in (ent["rec"].get("msg") or ""):
            return parts        # a query in the prefix hit the configured limit (documented): nothing is claimed for this history
        parts.append((f"prefix op {k} {ent['kind']} raised {ent['rec']['exc']}", B.const(ent["rec"]["exc"] is None)))
    last = trace[-1]
    if last["rec"].get("skipped"):
        return parts
    nid = last["op"]["node"]
    rec = last["rec"]
    nd = specs.node_by_id(last["dump"])[nid]
    if rec["exc"] is not None:
        parts.append((f"candidate computation raises only the resource-limit error (got {rec['exc']}: {rec.get('msg')})",
                      B.const(rec["exc"] == "RuntimeError" and "maximum amount of attractor candidates" in (rec.get("msg") or ""))))
        parts.append(("nothing cached after the error", B.const(nd["attractor_candidates"] is None and nd["attractor_seeds"] is None)))
        return parts
    excluded = []
    if nd["skipped"]:
        # skip nodes: by design the computation also leaves out N ∩ n for every other node n that does not contain N
        # and whose candidates or seeds were already known to be empty WHEN THE CALL WAS MADE (such an n has no attractor
        # outside its own successors).  Everything else in the node must be covered.
        before = specs.node_by_id(trace[-2]["dump"]) if len(trace) >= 2 else {}
        for oid, o in before.items():
            if oid == nid or specs.refines(nd["space"], o["space"]):
                continue
            if o.get("attractor_candidates") == [] or o.get("attractor_seeds") == []:
                m = specs.meet(nd["space"], o["space"])
                if m is not None:
                    excluded.append(m)
    parts += specs.candidates_cover(B, last["dump"], nid, rec["ret"], excluded)
    parts.append(("returned list is what was cached", B.const(nd["attractor_candidates"] == [tuple(c) for c in rec["ret"]])))
    return parts


def run_task(task):
    from engine import oracles
    oracles.install()
    oracles.LIST_ORDER = task["params"].get("order", "canonical")
    net = symnet.family(task["family"])
    prefix = tuple(task["params"]["prefix"])
    vs, cs = declare(prefix, net.n, task["params"].get("cfgmax", 5))
    if task["params"].get("slice") == "regen":
        # the retained-set regeneration branch: threshold 0/1, greedy ASP optimisation on
        k = len(prefix)
        cs += [z3.Int("cfg_thr") >= 0, z3.Int("cfg_thr") <= 1, z3.Bool(f"h{k}_greedy")]
    if task["params"].get("slice") == "simonly":
        # simulation minification on the raw candidate set: greedy ASP optimisation off, default configuration
        k = len(prefix)
        cs += [z3.Not(z3.Bool(f"h{k}_greedy")), z3.Bool(f"h{k}_sim")] + [z3.Int(c) == -1 for c in CFG]
    if task["params"].get("free_inputs"):
        fv, fc = hist.declare_free(net)
        vs, cs = vs + fv, cs + fc
    H = hist.SymH(net.n)
    selftest = task["params"].get("selftest")

    def harness(ctx, rules):
        oracles.AEON_TEXT.clear()
        hist.set_presentation(H, net.names, task["params"])
        out = execute(rules, prefix, H, net.names, True)
        parts = assertion(net, out)
        if selftest:
            parts.append(("selftest", net.FALSE))
        last = out["trace"][-1]
        return specs.conj(net, parts), {"op": last["op"], "rec": last["rec"]}
    cube = [net.bits[i] if v else z3.Not(net.bits[i]) for i, v in task.get("cube", [])]
    res = explore(net, harness, extra_vars=vs, extra_constraints=cs, cube=cube, timebox=task["timebox"], seed=task.get("seed", 0), label=task["label"],
                  start_at=task.get("start_at"), max_classes=task.get("max_classes"))
    res["violations"] = res["violations"][:4] + [{"rules": v["rules"], "hist": v["hist"], "kind": v["kind"]} for v in res["violations"][4:40]]
    return res


def replay(rec):
    B = ConcreteNet.from_bnet(rec["rules"])
    H = hist.ConcH(rec.get("hist", {}))
    hist.set_presentation(H, B.names, rec["params"])
    out = execute(rec["rules"], tuple(rec["params"]["prefix"]), H, B.names, False)
    parts = assertion(B, out)
    if rec["params"].get("selftest"):
        parts.append(("selftest", False))
    failing = specs.failing_parts(B, parts)
    return {"reproduces": bool(failing), "failing": failing[:6], "signature": {"site": "candidates"} if failing else None}


def tasks(tier, seed, selftest=False):
    T = []
    q = tier == "quick"

    def add(fam, prefix, box, cube_k=0, nbits=0, order="canonical", slice_=None, free=False):
        base = {"prop": PROP, "family": fam, "label": f"{fam}/{'+'.join(prefix) or 'fresh'}/{order}" + (f"/{slice_}" if slice_ else "") + ("/free-inputs" if free else ""), "timebox": box, "seed": seed,
                "params": {"prefix": list(prefix), "selftest": selftest, "order": order, "slice": slice_, "free_inputs": free}}
        if cube_k:
            for cube in common.cubes(nbits, cube_k):
                T.append(dict(base, cube=cube))
        else:
            T.append(base)
    if selftest:
        add("U2", (), 60)
        return T
    for p in PREFIXES:
        add("U2", p, 40 if q else 1800)
        add("D3", p, 25 if q else 1800)
    # slices the solver is steered into: networks whose negative feedback vertex set is everything (N3: every variable
    # negatively auto-regulated), with the regeneration branch forced (threshold <= 1, greedy optimisation on)
    for p in ((), ("succ",), ("fullbfs",)):
        add("N3", p, 30 if q else 1200, slice_="regen")
        add("D3", p, 15 if q else 900, slice_="regen")
    for p in ((), ("fullbfs",)):
        add("N3", p, 30 if q else 1200, slice_="simonly")
        add("U2", p, 15 if q else 600, slice_="simonly")
    # skip nodes that contain a motif-avoidant attractor, queried after other nodes (the exclusions of skip nodes)
    for p in (("succ", "skiprem", "cands"), ("succ", "skiprem")):
        add("P:MAA3+SRC1", p, 25 if q else 900)
    # inputs presented as free inputs (variables without update function)
    for p in ((), ("succ",)):
        add("D3", p, 12 if q else 600, free=True)
        add("S1C2", p, 12 if q else 600, free=True)
    if not q:
        for p in ((), ("succ",), ("fullbfs",)):
            add("U2", p, 900, order="reversed")
            add("U3", p, 600, cube_k=4, nbits=24)
    return T


def main(tier, seed, t0, selftest=False):
    results = common.run_tasks(tasks(tier, seed, selftest))
    return common.finish(PROP, tier, seed, "model_checking", results, t0, selftest=selftest, functions=FUNCTIONS,
                         bounds={"node": "any node (symbolic id) after a prefix history from " + str(PREFIXES),
                                 "options": "greedy_asp_minification, simulation_minification symbolic flags (pint off)",
                                 "config": "each of the 4 numeric fields in {default} ∪ 0..5, symbolic",
                                 "skip nodes": "per-node coverage with exactly the exclusions the design allows (N ∩ n for non-ancestor nodes n whose candidates/seeds were empty when the call was made); families P:MAA3+SRC1 with prefixes succ+skiprem[+cands]",
                                 "families": "U2, D3, N3 (3 variables, each negatively auto-regulated: NFVS = all) with the regeneration slice (threshold 0/1, greedy on); + U3 cubes, reversed oracle order (thorough); time-boxed",
                                 "heuristics": "NFVS and Random(123) shuffle take their real values (REG concretised)"},
                         assumptions=["contract stubs of DESIGN.md §8 validated on every representative",
                                      "skip nodes: candidate soundness only (their coverage is the subject of C05)"])
