"""C20 — reported diagram metadata is accurate (depth, ids, len, find_node, is_subgraph/is_isomorphic, summary).
E-CAB history mode; the metadata is compared with its definition evaluated on the dump after every call;
the summary after build() is compared with the attractors of every network of the class."""
from __future__ import annotations
import itertools
import re
from engine import specs, ops
from engine.symnet import in_space
from checks import hist, histcheck, common

PROP = "C20"
OPS = ["bfs", "dfs", "minp", "target", "succ", "blockp", "aseeds", "skip", "skiprem", "min"]
FUNCTIONS = ["SuccessionDiagram._update_node_depth/_ensure_edge/_ensure_node", "SuccessionDiagram.depth/__len__/node_ids",
             "SuccessionDiagram.find_node", "SuccessionDiagram.is_subgraph/is_isomorphic", "SuccessionDiagram.build",
             "SuccessionDiagram.summary", "space_unique_key"]


def longest_depths(dump):
    n = len(dump["nodes"])
    succ = {i: [] for i in range(n)}
    for e in dump["edges"]:
        succ[e["p"]].append(e["c"])
    depth = {0: 0}
    # longest path in a DAG from node 0 (Bellman-Ford style; the DAG has <= n levels)
    for _ in range(n):
        for p in range(n):
            if p in depth:
                for c in succ[p]:
                    if depth.get(c, -1) < depth[p] + 1:
                        depth[c] = depth[p] + 1
    return depth


def graph_sets(dump):
    sp = {n["id"]: n["space"] for n in dump["nodes"]}
    return set(sp.values()), {(sp[e["p"]], sp[e["c"]]) for e in dump["edges"]}


def execute(rules, skeleton, H, names, params):
    from biobalm import SuccessionDiagram
    full = hist.from_rules(rules)
    full.expand_bfs()
    fulld = ops.dump_sd(full, names, attractors=False)
    subspaces = list(itertools.product((0, 1, None), repeat=len(names)))

    def after(sd, k, ent):
        find = {}
        for S in subspaces:
            d = {nm: s for nm, s in zip(names, S) if s is not None}
            find[S] = sd.find_node(d)
        find["alien"] = sd.find_node({"zz_unknown": 1})
        ent["find"] = find
        ent["sub_ab"] = ops.guarded(sd.is_subgraph, full)["ret"]
        ent["sub_ba"] = ops.guarded(full.is_subgraph, sd)["ret"]
        ent["iso"] = ops.guarded(sd.is_isomorphic, full)["ret"]
        ent["root"] = sd.root()
        ent["ids"] = list(sd.node_ids())
        if ent["kind"] == "build":
            ent["summary"] = sd.summary()
            ent["minimal"] = {int(i): bool(sd.node_is_minimal(i)) for i in sd.node_ids()}
    sd, trace = hist.run_history(rules, skeleton, H, names, after_op=after, attractors=True)
    return {"trace": trace, "full": fulld}


def parse_summary(text, nvars):
    """-> (header nodes, header depth, order, entries[(label, space string, [attractor strings])])"""
    lines = text.split("\n")
    m = re.match(r"Succession Diagram with (\d+) nodes and depth (\d+)\.", lines[0])
    order = lines[1].replace("State order: ", "").split(", ")
    entries = []
    cur = None
    for ln in lines[4:]:
        if ln.startswith("minimal trap space ") or ln.startswith("motif avoidance in "):
            cur = (ln[:18], ln[19:], [])
            entries.append(cur)
        elif ln.startswith("."):
            cur[2].append(ln.lstrip("."))
    return int(m.group(1)), int(m.group(2)), order, entries


def assertion(B, rules, skeleton, out, params):
    parts = []
    fullnodes, fulledges = graph_sets(out["full"])
    for k, ent in enumerate(out["trace"]):
        dump = ent["dump"]
        pre = f"after op {k} {ent['kind']}: "
        if ent["rec"].get("skipped"):
            continue
        parts.append((pre + f"no unexpected exception ({ent['rec']['exc']}: {ent['rec'].get('msg')})", B.const(ent["rec"]["exc"] is None)))
        want = longest_depths(dump)
        got = {n["id"]: n["depth"] for n in dump["nodes"]}
        bad = sorted(i for i in got if got[i] != want.get(i))
        parts.append((pre + f"node depth = longest root path (wrong for nodes {bad}: got {[got[i] for i in bad]}, want {[want.get(i) for i in bad]})", B.const(not bad)))
        parts.append((pre + "diagram depth = maximum node depth", B.const(dump["depth"] == max(want.values()))))
        ids = [n["id"] for n in dump["nodes"]]
        parts.append((pre + "ids contiguous from root 0, len() counts them",
                      B.const(ids == list(range(len(ids))) and dump["len"] == len(ids) and ent["root"] == 0 and ent["ids"] == ids)))
        byspace = {}
        for n in dump["nodes"]:
            byspace.setdefault(n["space"], []).append(n["id"])
        okf = ent["find"]["alien"] is None
        for S, r in ent["find"].items():
            if S == "alien":
                continue
            exp = byspace.get(S, [None])
            okf = okf and (len(exp) == 1 and r == exp[0])
        parts.append((pre + "find_node returns exactly the node with that space, else None", B.const(okf)))
        an, ae = graph_sets(dump)
        parts.append((pre + "is_subgraph(diagram, full) = inclusion of node and edge sets", B.const(ent["sub_ab"] == (an <= fullnodes and ae <= fulledges))))
        parts.append((pre + "is_subgraph(full, diagram) = inclusion of node and edge sets", B.const(ent["sub_ba"] == (fullnodes <= an and fulledges <= ae))))
        parts.append((pre + "is_isomorphic = equality of node and edge sets", B.const(ent["iso"] == (an == fullnodes and ae == fulledges))))
        if ent["kind"] == "build" and ent["rec"]["exc"] is None:
            nn, dd, order, entries = parse_summary(ent["summary"], B.n)
            parts.append((pre + "summary header reports len and depth", B.const(nn == dump["len"] and dd == dump["depth"] and order == sorted(B.names))))
            nodes = specs.node_by_id(dump)
            listed = []
            okl = True
            for (label, sstr, attrs) in entries:
                S = tuple(None if ch == "*" else int(ch) for ch in sstr)
                # order is sorted(names) == names for our families
                cands_nodes = byspace.get(S, [])
                if len(cands_nodes) != 1:
                    okl = False
                    continue
                nid = cands_nodes[0]
                if (label.strip() == "minimal trap space") != ent["minimal"][nid]:
                    okl = False
                for a in attrs:
                    x = tuple(int(ch) for ch in a)
                    if not in_space(x, S):
                        okl = False
                    listed.append((nid, x))
            parts.append((pre + "summary entries name existing nodes, label them by minimality, list states inside them", B.const(okl)))
            states = [x for _, x in listed]
            # every attractor exactly once
            for x in B.states:
                hits = [B.And(B.reach(x, s), B.reach(s, x)) for s in states]
                one = B.Or([B.And([h] + [B.Not(h2) for j, h2 in enumerate(hits) if j != i]) for i, h in enumerate(hits)])
                parts.append((pre + f"summary lists the attractor of {x} exactly once", B.Implies(B.attr(x), one)))
            for nid, s in listed:
                parts.append((pre + f"summary state {s} lies in an attractor", B.attr(s)))
                # labelled by the node that contains it: the node must be the smallest listed node containing it
                kids = [nodes[e["c"]]["space"] for e in dump["edges"] if e["p"] == nid]
                parts.append((pre + f"summary state {s} is not inside a successor of its node {nid}", B.const(not any(in_space(s, kk) for kk in kids))))
    return parts


def info(out):
    return {"ops": [(e["kind"], e["op"], e["rec"]["ret"], e["rec"]["exc"]) for e in out["trace"]]}


def signature(B, rec, out, failing):
    """coarse structural signature of a reproduced counterexample (for known-findings matching)"""
    f0 = failing[0]
    if "node depth = longest root path" in f0:
        return {"site": "depth", "what": "stale depth of a descendant after a longer path to its ancestor was added"}
    if "summary lists the attractor" in f0 or "summary state" in f0:
        return {"site": "summary", "what": "build()/summary attractor listing"}
    return {"site": "other", "what": re.sub(r"[0-9(), ]+", " ", f0)[:80]}


def run_task(task):
    import checks.C20 as me
    if task["params"].get("mode") == "two":
        from checks import c20_two
        return c20_two.run_task(task)
    if task["params"].get("mode") == "depth_unit":
        import time
        from checks.c20_depth_unit import explore_depth
        t0 = time.time()
        r = explore_depth(task["params"]["N"], task["timebox"], succ_order=task["params"]["order"], seed=task.get("seed", 0),
                          selftest=bool(task["params"].get("selftest")))
        inconcl = []
        if r.get("unmodelled") or r.get("unknown"):
            inconcl.append({"reason": "depth unit: " + str(r.get("unmodelled") or "unknown")})
        viol = [{"rules": "", "hist": {}, "kind": "class", "info": {"dag": c}} for c in r["cex"]]
        return {"label": task["label"], "classes": r["classes"], "exhausted": r["exhausted"], "violations": viol, "inconclusive": inconcl,
                "observations": r["classes"], "samples": [{"N": task["params"]["N"], "order": task["params"]["order"]}], "queries": {"frontier": r["classes"], "class_unsat": r["classes"] - len(viol)},
                "z3_s": 0, "real_s": 0, "wall_s": time.time() - t0, "hangs": []}
    return histcheck.run_task(task, me)


def replay(rec):
    import checks.C20 as me
    if rec["params"].get("mode") == "two":
        from checks import c20_two
        return c20_two.replay(rec)
    if rec["params"].get("mode") == "depth_unit":
        from checks.c20_depth_unit import replay_depth
        if rec["params"].get("selftest"):
            return {"reproduces": True, "failing": ["selftest"], "signature": None}
        bad, got, want = replay_depth(rec["info"]["dag"])
        return {"reproduces": bool(bad), "failing": [f"after adding edge {rec['info']['dag']['new_edge']} to the DAG {rec['info']['dag']['edges']}: depth of nodes {bad} is {[got[j] for j in bad]}, longest root path is {[want[j] for j in bad]}"] if bad else [],
                "signature": {"site": "depth"} if bad else None}
    return histcheck.replay(rec, me)


def tasks(tier, seed, selftest=False):
    S = []
    if selftest:
        return histcheck.mk_tasks(PROP, [dict(family="U2", skeleton=("bfs",), timebox=60)], seed, True)
    q = tier == "quick"
    for o in OPS + ["build"]:
        S.append(dict(family="U2", skeleton=(o,), timebox=120))
    for o in ("dfs", "bfs", "succ", "build", "minp"):
        S.append(dict(family="D3", skeleton=(o,), timebox=20 if q else 900))
    for o in ("fulldfs", "build"):
        S.append(dict(family="U3", skeleton=(o,), timebox=15 if q else 900, cube_k=3 if q else 5, nbits=24))
    # two independent switches: partial diagrams that contain every node of the full one but not every edge
    for sk in (("succ", "succ"), ("succ", "succ", "succ"), ("bfs", "succ"), ("succ", "dfs")):
        S.append(dict(family="P:SW2+SW2", skeleton=sk, timebox=15 if q else 600))
    # a minimal trap space that holds two attractors (summary / seeds must list both)
    S.append(dict(family="TWOATT3", skeleton=("build",), timebox=10 if q else 300))
    # diagrams with a shortcut edge (a node with parents at different depths), in both answer orders
    for sk in (("succ", "succ"), ("succ", "dfs"), ("dfs", "bfs"), ("bfs", "succ"), ("succ", "succ", "succ")):
        for order in ("canonical", "reversed"):
            S.append(dict(family="SKIP3", skeleton=sk, timebox=6 if q else 300, params={"order": order}))
    pairs = list(itertools.product(OPS, repeat=2))
    for sk in pairs:
        S.append(dict(family="U2", skeleton=sk, timebox=5 if q else 900))
    if not q:
        for sk in itertools.product(("succ", "dfs", "bfs", "target"), repeat=2):
            S.append(dict(family="D3", skeleton=sk, timebox=300))
        for fam in ("B22", "CH4"):
            S.append(dict(family=fam, skeleton=("build",), timebox=300, cube_k=4, nbits=20))
    T = histcheck.mk_tasks(PROP, S, seed)
    # is_subgraph / is_isomorphic between diagrams of two different symbolic networks (checks/c20_two.py)
    import checks.c20_two as two
    for kf in two.OPS:
        for kg in two.OPS:
            T.append({"prop": PROP, "family": "-", "label": f"two/{kf}+{kg}", "timebox": 8 if q else 600, "seed": seed,
                      "params": {"mode": "two", "kinds": [kf, kg]}})
    # one-step inductive unit for depths on a symbolic DAG (checks/c20_depth_unit.py)
    for N in ((4, 5, 6, 7) if q else (4, 5, 6, 7, 8)):
        for order in ("asc", "desc"):
            T.append({"prop": PROP, "family": "-", "label": f"depth-unit/N={N}/{order}", "timebox": 100 if q else 1500, "seed": seed,
                      "params": {"mode": "depth_unit", "N": N, "order": order}})
    return T


def main(tier, seed, t0, selftest=False):
    results = common.run_tasks(tasks(tier, seed, selftest))
    return common.finish(PROP, tier, seed, "model_checking", results, t0, selftest=selftest, functions=FUNCTIONS,
                         bounds={"history": "K<=2 ops from " + ",".join(OPS) + " + build; metadata compared after every op",
                                 "families": "U2 (K=1 exhaustive, K=2 time-boxed in quick), D3, U3 slices; B22/CH4 build (thorough)",
                                 "depth unit": "real _ensure_edge/_update_node_depth on a symbolic DAG with <= 7 (thorough 8) nodes in topological numbering, symbolic adjacency, pre-state depths = longest root paths, any new or repeated edge; both successor iteration orders",
                                 "is_subgraph": "against a fresh fully expanded diagram of the same network (both directions); and between diagrams of two independent symbolic 2-variable networks over the same names, each after nothing / root expansion / limited bfs / full bfs"},
                         assumptions=["contract stubs of DESIGN.md §8 validated on every representative"])
