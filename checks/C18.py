"""C18 — results compose across independent and input-conditioned sub-networks.
(1) disjoint union: a symbolic product network A x B (ProductNet: definitions composed from the components'
    atoms); the real code is run on the union and on each part (three diagrams in one run); minimal trap
    spaces and attractors of the union must be exactly the pairwise products.
(2) inputs: a symbolic network with source variables; for every valuation of the sources the diagram of the
    network with the sources replaced by constants (a SymNet *view* sharing the truth-table bits) must be
    isomorphic to the part of the free-input diagram below that valuation's node, with the same attractors.
(3) agreement with an independent symbolic attractor computation on large published models: not decidable by
    this family of technique (DESIGN.md §7) - not claimed."""
from __future__ import annotations
import itertools
import z3
from engine import specs, ops, symnet
from engine.symnet import refines, in_space
from engine.cab import CTX, explore
from engine.ref import ConcreteNet
from checks import common

PROP = "C18"
FUNCTIONS = ["SuccessionDiagram.build / expand_block / expand_scc (block and SCC decomposition)", "SuccessionDiagram.component_subdiagram",
             "expand_source_blocks (independent minimal blocks, source fast-forward)", "expand_source_SCCs / attach_scc_subdiagram",
             "SuccessionDiagram._expand_one_node (joint source expansion at the root)", "interaction_graph_utils.source_SCCs/source_nodes"]


def split_rules(rules, names_a):
    la, lb = [], []
    for ln in rules.strip().splitlines():
        (la if ln.split(",")[0].strip() in names_a else lb).append(ln)
    return "\n".join(la) + "\n", "\n".join(lb) + "\n"


def run_sd(rules, strat, names):
    from biobalm import SuccessionDiagram
    sd = SuccessionDiagram.from_rules(rules)
    r = ops.guarded({"build": sd.build, "scc": sd.expand_scc, "bfs": sd.expand_bfs, "block": sd.expand_block}[strat])
    seeds = ops.guarded(lambda: {int(i): [ops._t(names, s) for s in v] for i, v in sd.expanded_attractor_seeds().items()})
    d = ops.dump_sd(sd, names, attractors=True)
    return {"exc": r["exc"] or seeds["exc"], "msg": r.get("msg") or seeds.get("msg"), "dump": d, "seeds": seeds["ret"],
            "mts": sorted((ops._t(names, sd.node_data(i)["space"]) for i in sd.minimal_trap_spaces()), key=str) if r["exc"] is None else None}


# ----------------------------------------------------------------------------- (1) disjoint union
def execute_union(rules, strat, names, na):
    ra, rb = split_rules(rules, names[:na])
    return {"u": run_sd(rules, strat, names), "a": run_sd(ra, strat, names), "b": run_sd(rb, strat, names), "na": na}


def assertion_union(B, out):
    parts = []
    for k in ("u", "a", "b"):
        parts.append((f"diagram {k}: no exception ({out[k]['exc']}: {out[k].get('msg')})", B.const(out[k]["exc"] is None)))
    if any(out[k]["exc"] for k in ("u", "a", "b")):
        return parts
    na, n = out["na"], B.n
    pa = lambda S: tuple(S[:na]) + (None,) * (n - na)
    pb = lambda S: (None,) * na + tuple(S[na:])
    prod = sorted((tuple(x if x is not None else y for x, y in zip(ma, mb)) for ma in out["a"]["mts"] for mb in out["b"]["mts"]), key=str)
    parts.append(("minimal trap spaces of the union = pairwise products of the parts'", B.const(sorted(map(tuple, out["u"]["mts"]), key=str) == prod)))
    su = [tuple(s) for v in out["u"]["seeds"].values() for s in v]
    sa = [tuple(s) for v in out["a"]["seeds"].values() for s in v]
    sb = [tuple(s) for v in out["b"]["seeds"].values() for s in v]
    parts.append(("number of attractors of the union = product of the parts' numbers", B.const(len(su) == len(sa) * len(sb))))
    # every pair of part attractors is the projection of exactly one union attractor (seeds are partial states of the parts)
    fill = lambda s: tuple(0 if x is None else x for x in s)
    for x in sa:
        for y in sb:
            pair = tuple(a if a is not None else b for a, b in zip(x, y))
            hits = [B.And(B.reach(s, pair), B.reach(pair, s)) for s in su]
            one = B.Or([B.And([h] + [B.Not(h2) for j, h2 in enumerate(hits) if j != i]) for i, h in enumerate(hits)])
            parts.append((f"product of part attractors through {x} and {y} is represented by exactly one union seed", one))
    for s in su:
        parts.append((f"union seed {s} lies in an attractor", B.attr(s)))
    return parts


# ----------------------------------------------------------------------------- (2) inputs fixed vs free
def const_rules(rules, fixed, names):
    out = []
    for ln in rules.strip().splitlines():
        nm = ln.split(",")[0].strip()
        if nm in fixed:
            out.append(f"{nm}, {'true' if fixed[nm] else 'false'}")
        else:
            out.append(ln)
    return "\n".join(out) + "\n"


def sub_diagram(dump, root_space):
    """nodes/edges of the dump below (and including) the node with the given space; None if absent"""
    nodes = specs.node_by_id(dump)
    start = [n["id"] for n in nodes.values() if n["space"] == root_space]
    if not start:
        return None
    seen, st = set(start), list(start)
    oe = specs.out_edges(dump)
    while st:
        c = st.pop()
        for e in oe[c]:
            if e["c"] not in seen:
                seen.add(e["c"])
                st.append(e["c"])
    ns = sorted(str(nodes[i]["space"]) for i in seen)
    es = sorted((str(nodes[e["p"]]["space"]), str(nodes[e["c"]]["space"])) for e in dump["edges"] if e["p"] in seen and e["p"] not in start or e["p"] in seen)
    return ns, es, seen


def execute_inputs(rules, names, srcs, views, symbolic):
    from engine import oracles
    free = run_sd(rules, "bfs", names)
    out = {"free": free, "fixed": {}}
    for vals in itertools.product((0, 1), repeat=len(srcs)):
        fixed = {names[v]: b for v, b in zip(srcs, vals)}
        r2 = const_rules(rules, fixed, names)
        if symbolic:
            with oracles.use_net(views[vals]):
                out["fixed"][vals] = run_sd(r2, "bfs", names)
        else:
            out["fixed"][vals] = run_sd(r2, "bfs", names)
    out["srcs"] = list(srcs)
    return out


def assertion_inputs(B, out, perc_of_valuation):
    parts = []
    free = out["free"]
    parts.append((f"free-input diagram: no exception ({free['exc']})", B.const(free["exc"] is None)))
    if free["exc"]:
        return parts
    nodes = specs.node_by_id(free["dump"])
    for vals, fx in out["fixed"].items():
        parts.append((f"inputs {vals}: no exception ({fx['exc']})", B.const(fx["exc"] is None)))
        if fx["exc"]:
            continue
        root2 = specs.node_by_id(fx["dump"])[0]["space"]
        sub = sub_diagram(free["dump"], root2)
        parts.append((f"inputs {vals}: the free-input diagram has a node for this valuation (space {root2})", B.const(sub is not None)))
        if sub is None:
            continue
        ns, es, seen = sub
        n2 = sorted(str(n["space"]) for n in fx["dump"]["nodes"])
        sp2 = {n["id"]: n["space"] for n in fx["dump"]["nodes"]}
        e2 = sorted((str(sp2[e["p"]]), str(sp2[e["c"]])) for e in fx["dump"]["edges"])
        parts.append((f"inputs {vals}: diagram with fixed inputs is isomorphic to the part of the free-input diagram below the valuation's node",
                      B.const(ns == n2 and es == e2)))
        s_free = [tuple(s) for i, v in free["seeds"].items() if int(i) in seen for s in v]
        s_fix = [tuple(s) for v in fx["seeds"].values() for s in v]
        parts.append((f"inputs {vals}: same number of attractors", B.const(len(s_free) == len(s_fix))))
        for s in s_fix:
            hits = [B.And(B.reach(s, t), B.reach(t, s)) for t in s_free]
            one = B.Or([B.And([h] + [B.Not(h2) for j, h2 in enumerate(hits) if j != i]) for i, h in enumerate(hits)])
            parts.append((f"inputs {vals}: attractor of {s} (fixed inputs) is one of the attractors found below the valuation's node", one))
    return parts


def run_task(task):
    if task["params"].get("mode") == "models":
        from checks import c18_models
        return c18_models.run_task(task)
    from engine import oracles
    oracles.install()
    oracles.LIST_ORDER = task["params"].get("order", "canonical")
    net = symnet.family(task["family"])
    mode = task["params"]["mode"]
    selftest = task["params"].get("selftest")
    extra = []
    views = {}
    if mode == "inputs":
        srcs = task["params"]["srcs"]
        extra += [net.is_source(v, (None,) * net.n) for v in srcs]
        extra += [z3.Not(net.is_source(v, (None,) * net.n)) for v in range(net.n) if v not in srcs]   # exactly these are the inputs
        net.views = []
        for vals in itertools.product((0, 1), repeat=len(srcs)):
            w = symnet.SymNet.view(net, dict(zip(srcs, vals)), "G" + "".join(map(str, vals)))
            views[vals] = w
            net.views.append(w)
            extra += w.defs

    def harness(ctx, rules):
        oracles.AEON_TEXT.clear()
        if mode == "union":
            out = execute_union(rules, task["params"]["strat"], net.names, net.comps[0].n)
            parts = assertion_union(net, out)
            info = {"mts": out["u"]["mts"]}
        else:
            out = execute_inputs(rules, net.names, task["params"]["srcs"], views, True)
            parts = assertion_inputs(net, out, None)
            info = {"nodes": len(out["free"]["dump"]["nodes"])}
        if selftest:
            parts.append(("selftest", net.FALSE))
        return specs.conj(net, parts), info
    cube = [net.bits[i] if v else z3.Not(net.bits[i]) for i, v in task.get("cube", [])]
    res = explore(net, harness, extra_constraints=extra, cube=cube, timebox=task["timebox"], seed=task.get("seed", 0), label=task["label"],
                  start_at=task.get("start_at"), max_classes=task.get("max_classes"), class_wall_s=60)
    res["violations"] = res["violations"][:4] + [{"rules": v["rules"], "hist": v["hist"], "kind": v["kind"]} for v in res["violations"][4:40]]
    return res


def replay(rec):
    if rec["params"].get("mode") == "models":
        from checks import c18_models
        return c18_models.replay(rec)
    B = ConcreteNet.from_bnet(rec["rules"])
    if rec["params"]["mode"] == "union":
        out = execute_union(rec["rules"], rec["params"]["strat"], B.names, rec["params"]["na"])
        parts = assertion_union(B, out)
    else:
        out = execute_inputs(rec["rules"], B.names, rec["params"]["srcs"], {}, False)
        parts = assertion_inputs(B, out, None)
    if rec["params"].get("selftest"):
        parts.append(("selftest", False))
    failing = specs.failing_parts(B, parts)
    return {"reproduces": bool(failing), "failing": failing[:6], "signature": None}


def tasks(tier, seed, selftest=False):
    T = []
    q = tier == "quick"

    def add(fam, params, box, cube_k=0, nbits=0):
        base = {"prop": PROP, "family": fam, "label": f"{fam}/{params['mode']}/{params.get('strat', '')}" + ("/" + params["order"] if params.get("order") else ""), "timebox": box, "seed": seed,
                "params": dict(params, selftest=selftest)}
        if cube_k:
            for cube in common.cubes(nbits, cube_k):
                T.append(dict(base, cube=cube))
        else:
            T.append(base)
    if selftest:
        add("P:U2+U1", {"mode": "union", "strat": "build", "na": 2}, 60)
        return T
    # third sentence, the solver-decidable part: the repository's published models (5-321 variables), see c18_models.py
    import glob
    import os
    mdir = os.path.join(os.environ.get("VERIF_REPO", "/repo"), "models/bbm-bnet-inputs-true")
    paths = sorted(glob.glob(os.path.join(mdir, "*.bnet")), key=os.path.getsize)
    big, small = paths[-24:], paths[:-24]
    for pth in big:
        T.append({"prop": PROP, "family": "-", "label": "models/large", "timebox": 30, "seed": seed, "params": {"mode": "models", "models": [pth]}})
    for i in range(0, len(small), 24):
        T.append({"prop": PROP, "family": "-", "label": "models/small", "timebox": 20, "seed": seed, "params": {"mode": "models", "models": small[i:i + 24]}})
    for strat in ("build", "scc", "bfs"):
        add("P:U2+U1", {"mode": "union", "strat": strat, "na": 2}, 30 if q else 900)
        add("P:U2+U2", {"mode": "union", "strat": strat, "na": 2}, 40 if q else 1800)
        if not q:
            add("P:D3+U2", {"mode": "union", "strat": strat, "na": 3}, 1200)
            add("P:MAA3+SW2", {"mode": "union", "strat": strat, "na": 3}, 900)
    # a nested component (motif-avoidant attractor at an inner node of its own diagram) next to a switch: the shape on
    # which attaching component sub-diagrams has to propagate "no motif-avoidant attractor" node by node
    add("P:NEST4+SW2", {"mode": "union", "strat": "scc", "na": 4}, 60 if q else 1200)
    # two components with nested blocks each (four blocks at the root of the union, two of them non-minimal): block
    # expansion (build) has to pick a minimal one whatever the order in which the motifs are discovered
    for fam in ("P:NB3+NB3r", "P:NB3r+NB3") if q else ("P:NB3+NB3r", "P:NB3r+NB3", "P:NB3+NB3", "P:NB3r+NB3r"):
        add(fam, {"mode": "union", "strat": "build", "na": 3}, 30 if q else 900)
        add(fam, {"mode": "union", "strat": "build", "na": 3, "order": "reversed"}, 30 if q else 900)
    add("S1C2", {"mode": "inputs", "srcs": [0]}, 60 if q else 1800)
    add("S2C2", {"mode": "inputs", "srcs": [0, 1]}, 40 if q else 1800)
    if not q:
        add("S1C3", {"mode": "inputs", "srcs": [0]}, 1800)
    return T


def main(tier, seed, t0, selftest=False):
    results = common.run_tasks(tasks(tier, seed, selftest))
    return common.finish(PROP, tier, seed, "model_checking", results, t0, selftest=selftest, functions=FUNCTIONS,
                         bounds={"union": "symbolic product networks U2xU1, U2xU2, NEST4xSW2 (6 variables, solver-constrained nested component; strategy scc) (quick); + D3xU2, MAA3xSW2 (thorough); strategies build, expand_scc, expand_bfs on union and parts",
                                 "inputs": "S1C2 (1 source + 2 core variables), S2C2 (2 sources + 2 core); all valuations of the sources; fixed-input network = SymNet view sharing the bits",
                                 "published models": "all models of models/bbm-bnet-inputs-true (5-321 variables): z3 over all states decides closedness of every reported minimal trap space, soundness and COMPLETENESS of the fixed-point attractors, seeds inside their spaces / one per minimal trap space (checks/c18_models.py)",
                                 "not claimed": "of the third sentence of C18: that a complex attractor inside a reported minimal trap space is the only one there and that no motif-avoidant attractor exists, on the large models (reachability on up to 2^321 states has no bounded encoding within reach; running AEON next to biobalm would be differential testing, not a solver verdict)"},
                         assumptions=["contract stubs of DESIGN.md §8 validated on every representative"])
