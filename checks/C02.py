"""C02 — a fully expanded diagram is exactly the hierarchy of percolated trap spaces.
E-CAB coarse: real SuccessionDiagram.expand_bfs / expand_dfs over a symbolic network; oracles: trappist
(max), percolate_space, extract_source_variables."""
from __future__ import annotations
import time
import z3

from engine import symnet, specs, ops
from engine.cab import explore, CTX
from engine.ref import ConcreteNet
from checks import common

PROP = "C02"
FUNCTIONS = ["SuccessionDiagram.__init__", "SuccessionDiagram._expand_one_node", "SuccessionDiagram._ensure_node",
             "SuccessionDiagram._ensure_edge", "SuccessionDiagram.node_successors", "expand_bfs", "expand_dfs",
             "space_unique_key"]


def run_ops(rules, mode, names, motif_limit=None):
    from biobalm import SuccessionDiagram
    if motif_limit is None:
        sd = SuccessionDiagram.from_rules(rules)
    else:
        cfg = SuccessionDiagram.default_config()
        cfg["max_motifs_per_node"] = motif_limit
        sd = SuccessionDiagram.from_rules(rules, config=cfg)
    r = ops.guarded(sd.expand_bfs if mode == "bfs" else sd.expand_dfs)
    return ops.dump_sd(sd, names, attractors=False), r


def assertion(B, dump, r, limited=False):
    if limited and r["exc"] == "RuntimeError" and "maximum amount of stable motifs" in (r.get("msg") or ""):
        # the documented answer to a node with more stable motifs than configured: nothing is claimed about that run
        return [("limit error raised", B.const(True))]
    parts = [("expansion reported completion without error", B.const(r["exc"] is None and r["ret"] is True))]
    parts += specs.full_diagram_spec(B, dump)
    return parts


def run_task(task):
    if task["params"].get("mode") == "models":
        from checks import c02_models
        return c02_models.run_task(task)
    from engine import oracles
    oracles.install()
    oracles.LIST_ORDER = task["params"].get("order", "canonical")
    net = symnet.family(task["family"])
    mode = task["params"]["mode"]
    selftest = task["params"].get("selftest")

    lim = z3.Int("cfg_motifs")
    limited = bool(task["params"].get("cfg"))

    def harness(ctx, rules):
        from engine.cab import SymInt
        dump, r = run_ops(rules, mode, net.names, SymInt(lim) if limited else None)
        parts = assertion(net, dump, r, limited)
        if selftest:
            parts.append(("selftest", net.FALSE))
        return specs.conj(net, parts), {"nodes": len(dump["nodes"]), "edges": len(dump["edges"])}
    cube = [net.bits[i] if v else z3.Not(net.bits[i]) for i, v in task.get("cube", [])]
    res = explore(net, harness, cube=cube, timebox=task["timebox"], seed=task.get("seed", 0), label=task["label"],
                  extra_vars=[lim] if limited else [], extra_constraints=[lim >= 0, lim <= 6] if limited else [],
                  start_at=task.get("start_at"), max_classes=task.get("max_classes"))
    return res


def replay(rec):
    if rec["params"].get("mode") == "models":
        from checks import c02_models
        return c02_models.replay(rec)
    B = ConcreteNet.from_bnet(rec["rules"])
    limited = bool(rec["params"].get("cfg"))
    dump, r = run_ops(rec["rules"], rec["params"]["mode"], B.names, int(rec.get("hist", {}).get("cfg_motifs", 0)) if limited else None)
    parts = assertion(B, dump, r, limited)
    if rec["params"].get("selftest"):
        parts.append(("selftest", False))
    failing = specs.failing_parts(B, parts)
    return {"reproduces": bool(failing), "failing": failing[:6], "signature": None}


def tasks(tier, seed, selftest=False):
    T = []
    for mode in ("bfs", "dfs"):
        for order in (("canonical", "reversed") if tier == "thorough" else ("canonical",)):
            T.append({"prop": PROP, "family": "U2", "label": f"U2/{mode}/{order}", "timebox": 120, "seed": seed,
                      "params": {"mode": mode, "order": order, "selftest": selftest}})
        if selftest:
            continue
        k = 6 if tier == "thorough" else 5
        box = 600 if tier == "thorough" else 22
        for cube in common.cubes(24, k):
            T.append({"prop": PROP, "family": "U3", "label": f"U3/{mode}", "timebox": box, "seed": seed, "cube": cube,
                      "params": {"mode": mode, "order": "canonical"}})
    if selftest:
        return T
    # a small (symbolic) max_motifs_per_node: the expansion either raises the documented limit error or is exact
    for mode in ("bfs", "dfs"):
        T.append({"prop": PROP, "family": "U2", "label": f"U2/{mode}/motif-limit", "timebox": 15 if tier != "thorough" else 600, "seed": seed,
                  "params": {"mode": mode, "order": "canonical", "cfg": True}})
        T.append({"prop": PROP, "family": "P:SW2+SW2", "label": f"P:SW2+SW2/{mode}/motif-limit", "timebox": 15 if tier != "thorough" else 600, "seed": seed,
                  "params": {"mode": mode, "order": "canonical", "cfg": True}})
    # published models: the expanded nodes of a size-limited BFS / DFS expansion, decided by z3 (checks/c02_models.py)
    import glob
    import os
    q = tier != "thorough"
    mdir = os.path.join(os.environ.get("VERIF_REPO", "/repo"), "models/bbm-bnet-inputs-true")
    paths = sorted(glob.glob(os.path.join(mdir, "*.bnet")), key=os.path.getsize)
    small, mid, large = paths[:120], paths[120:180], paths[180:]
    for i in range(0, len(small), 12):
        T.append({"prop": PROP, "family": "-", "label": "models/small", "timebox": 15, "seed": seed,
                  "params": {"mode": "models", "models": small[i:i + 12], "strats": ["bfs", "dfs"], "max_nodes": 12 if q else 24}})
    for i in range(0, len(mid), 3):
        T.append({"prop": PROP, "family": "-", "label": "models/medium", "timebox": 20 if q else 120, "seed": seed,
                  "params": {"mode": "models", "models": mid[i:i + 3], "strats": ["bfs", "dfs"], "max_nodes": 18 if q else 30}})
    if not q:
        for pth in large:
            T.append({"prop": PROP, "family": "-", "label": "models/large", "timebox": 150, "seed": seed,
                      "params": {"mode": "models", "models": [pth], "strats": ["bfs", "dfs"], "max_nodes": 18}})
    return T


def main(tier, seed, t0, selftest=False):
    results = common.run_tasks(tasks(tier, seed, selftest))
    return common.finish(PROP, tier, seed, "model_checking", results, t0, selftest=selftest, functions=FUNCTIONS,
                         bounds={"families": "U2 exhaustive; U3 (3 variables, unrestricted) " + ("to exhaustion" if tier == "thorough" else "time-boxed slice per cube"),
                                 "published models": "expanded nodes of a size-limited BFS/DFS expansion (quick: 120 small models (size limit 12) and 60 medium (size limit 18), the root and the deepest expanded nodes, at least 6 per run; thorough: all 210): node closed under percolation (z3 least fixed point over all states), motifs are trap spaces, maximal, percolate to their child, and no trap space inside the node avoids all listed motifs (z3 over the validated Petri net); leaves of a limited expansion are not claimed minimal",
                                 "outside": "n>3 for the symbolic families; oracle list orders other than canonical/reversed"},
                         assumptions=["clingo enumerates exactly the subset-minimal/maximal models (checked on every representative)",
                                      "AEON Percolation.percolate_subspace = PERC (checked on every representative)",
                                      "trappist/percolate_space internals are decided by C09/C10/C11"])
