"""Shared runner for history-mode E-CAB checks (C03, C04, C14, C15, C16, C20 ...).

A property module provides:
  PROP, skeletons(tier) -> list of (family, skeleton, params, timebox, cube_bits),
  assertion(B, rules, skeleton, trace, extra) -> parts,   extra(sd, rules, names, H) optional concrete twin runs
"""
from __future__ import annotations
import z3
from engine import symnet, specs
from engine.cab import explore
from engine.ref import ConcreteNet
from checks import hist, common


def run_task(task, mod):
    from engine import oracles
    oracles.install()
    oracles.LIST_ORDER = task["params"].get("order", "canonical")
    oracles.FAULT["at"] = None
    from engine import fine
    fine.ENABLED["on"] = bool(task["params"].get("fine"))
    fine.ENABLED["size_mode"] = task["params"].get("size_mode", "real") if task["params"].get("order", "canonical") != "real" else "real"
    net = symnet.family(task["family"])
    skeleton = tuple(task["params"]["skeleton"])
    vs, cs = hist.declare(skeleton, net.n, maxlim=task["params"].get("maxlim", hist.MAXLIM))
    extra_vs, extra_cs = mod.extra_vars(task, net) if hasattr(mod, "extra_vars") else ([], [])
    if task["params"].get("free_inputs"):
        fv, fc = hist.declare_free(net)
        extra_vs, extra_cs = list(extra_vs) + fv, list(extra_cs) + fc
    H = hist.SymH(net.n)
    selftest = task["params"].get("selftest")

    def harness(ctx, rules):
        oracles.FAULT["count"] = 0
        oracles.FAULT["at"] = None
        oracles.AEON_TEXT.clear()
        hist.set_presentation(H, net.names, task["params"])
        out = mod.execute(rules, skeleton, H, net.names, task["params"])
        parts = mod.assertion(net, rules, skeleton, out, task["params"])
        if selftest:
            parts.append(("selftest", net.FALSE))
        info = mod.info(out) if hasattr(mod, "info") else {}
        return specs.conj(net, parts), info
    cube = [net.bits[i] if v else z3.Not(net.bits[i]) for i, v in task.get("cube", [])]
    res = explore(net, harness, extra_vars=vs + extra_vs, extra_constraints=cs + extra_cs, cube=cube,
                  timebox=task["timebox"], seed=task.get("seed", 0) + 7919 * int(task["params"].get("solver_seed", 0)), label=task["label"],
                  start_at=task.get("start_at"), max_classes=task.get("max_classes"))
    res["violations"] = res["violations"][:4] + [{"rules": v["rules"], "hist": v["hist"], "kind": v["kind"]} for v in res["violations"][4:40]]
    return res


def replay(rec, mod):
    B = ConcreteNet.from_bnet(rec["rules"])
    skeleton = tuple(rec["params"]["skeleton"])
    H = hist.ConcH(rec.get("hist", {}))
    hist.set_presentation(H, B.names, rec["params"])
    out = mod.execute(rec["rules"], skeleton, H, B.names, rec["params"])
    parts = mod.assertion(B, rec["rules"], skeleton, out, rec["params"])
    if rec["params"].get("selftest"):
        parts.append(("selftest", False))
    failing = specs.failing_parts(B, parts)
    sig = mod.signature(B, rec, out, failing) if hasattr(mod, "signature") and failing else None
    return {"reproduces": bool(failing), "failing": failing[:6], "signature": sig}


def mk_tasks(prop, specs_list, seed, selftest=False):
    """specs_list: iterable of dict(family, skeleton, timebox, cube_k, params)"""
    T = []
    for s in specs_list:
        net_bits = s.get("nbits")
        params = dict(s.get("params", {}))
        params["skeleton"] = list(s["skeleton"])
        if selftest:
            params["selftest"] = True
        label = f"{s['family']}/{'+'.join(s['skeleton'])}" + (f"/{params['order']}" if params.get("order") else "") + (f"/{s['tag']}" if s.get("tag") else "")
        if s.get("cube_k"):
            for cube in common.cubes(net_bits, s["cube_k"]):
                T.append({"prop": prop, "family": s["family"], "label": label, "timebox": s["timebox"], "seed": seed,
                          "cube": cube, "params": params})
        else:
            T.append({"prop": prop, "family": s["family"], "label": label, "timebox": s["timebox"], "seed": seed, "params": params})
    return T
