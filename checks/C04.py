"""C04 — lazily built diagrams are always a faithful part of the full diagram.
E-CAB history mode: K plain expansion calls with symbolic start nodes / limits / targets; after every
call the partial-diagram invariant is decided for the whole class; finally an unrestricted expand_bfs on
the same object must give the full diagram (C02 spec) and equal a fresh expansion."""
from __future__ import annotations
import itertools
from engine import specs, ops
from checks import hist, histcheck, common

PROP = "C04"
PLAIN = ["bfs", "dfs", "minp", "aseeds", "target", "blockp", "succ"]
FUNCTIONS = ["space_utils.space_unique_key (AST -> z3 bit-vectors)", "SuccessionDiagram._expand_one_node/_ensure_node/_ensure_edge/node_successors", "expand_bfs", "expand_dfs",
             "expand_minimal_spaces", "expand_attractor_seeds", "expand_to_target", "expand_source_blocks(optimize_source_nodes=False)"]


def canon(dump):
    """diagram up to node ids"""
    sp = {n["id"]: n["space"] for n in dump["nodes"]}
    nodes = sorted((str(n["space"]), n["expanded"], n["skipped"]) for n in dump["nodes"])
    edges = sorted((str(sp[e["p"]]), str(sp[e["c"]]), sorted(map(str, e["all_motifs"]))) for e in dump["edges"])
    return nodes, edges


def extra_vars(task, net):
    if task["params"].get("cfg"):
        return hist.declare_config(fields={"cfg_motifs": "max_motifs_per_node"})
    return [], []


def execute(rules, skeleton, H, names, params):
    cfg = None
    if params.get("cfg"):
        cfg = hist.read_config(H, isinstance(H, hist.SymH), fields={"cfg_motifs": "max_motifs_per_node"})
    sd, trace = hist.run_history(rules, skeleton, H, names, config=cfg)
    if cfg is not None:
        sd.config["max_motifs_per_node"] = 100_000      # the continuation runs with the limit relaxed
    sd, rec = ops.apply_op(sd, {"op": "bfs"}, names)
    final = ops.dump_sd(sd, names, attractors=False)
    from biobalm import SuccessionDiagram
    fresh = hist.from_rules(rules)
    fresh.expand_bfs()
    return {"trace": trace, "final": final, "final_rec": {"ret": rec["ret"], "exc": rec["exc"]},
            "fresh": ops.dump_sd(fresh, names, attractors=False)}


def assertion(B, rules, skeleton, out, params):
    parts = []
    for k, ent in enumerate(out["trace"]):
        rec = ent["rec"]
        ok_exc = rec["exc"] is None or (params.get("cfg") and rec["exc"] == "RuntimeError" and "maximum amount of stable motifs" in (rec.get("msg") or ""))
        parts.append((f"op {k} {ent['kind']}: no unexpected exception ({rec.get('exc')}: {rec.get('msg')})", B.const(ok_exc)))
        parts += [(f"after op {k} {ent['kind']}: " + l, f) for l, f in specs.partial_diagram_spec(B, ent["dump"])]
    parts.append(("final unrestricted expand_bfs completes", B.const(out["final_rec"]["exc"] is None and out["final_rec"]["ret"] is True)))
    parts += [("final: " + l, f) for l, f in specs.full_diagram_spec(B, out["final"])]
    parts.append(("continued diagram equals a fresh full expansion", B.const(canon(out["final"]) == canon(out["fresh"]))))
    return parts


def info(out):
    return {"ops": [(e["kind"], e["op"], e["rec"]["ret"]) for e in out["trace"]], "final_nodes": len(out["final"]["nodes"])}


def run_task(task):
    import checks.C04 as me
    if task["params"].get("mode") == "models":
        from checks import c02_models
        return c02_models.run_task(task)
    if task["params"].get("mode") == "keyunit":
        from checks import c04_key_unit
        return c04_key_unit.run_task(task)
    return histcheck.run_task(task, me)


def replay(rec):
    import checks.C04 as me
    if rec["params"].get("mode") == "models":
        from checks import c02_models
        return c02_models.replay(rec)
    if rec["params"].get("mode") == "keyunit":
        from checks import c04_key_unit
        return c04_key_unit.replay(rec)
    return histcheck.replay(rec, me)


def tasks(tier, seed, selftest=False):
    S = []
    if selftest:
        S.append(dict(family="U2", skeleton=("bfs",), timebox=60))
        return histcheck.mk_tasks(PROP, S, seed, True)
    for sk in PLAIN:
        S.append(dict(family="U2", skeleton=(sk,), timebox=120))
    for sk in itertools.product(PLAIN, repeat=2):
        S.append(dict(family="U2", skeleton=sk, timebox=12 if tier == "quick" else 2400))
    if tier == "thorough":
        for sk in itertools.product(PLAIN, repeat=3):
            S.append(dict(family="U2", skeleton=sk, timebox=20))
        for sk in itertools.product(PLAIN, repeat=2):
            S.append(dict(family="D3", skeleton=sk, timebox=60))
        for sk in PLAIN:
            S.append(dict(family="U3", skeleton=(sk,), timebox=300, cube_k=4, nbits=24))
    # inputs presented as free inputs (variables without update function): the cached percolated nets go through the
    # update-is-None branches of percolate_network / network_to_petrinet
    for sk in PLAIN:
        S.append(dict(family="S1C2", skeleton=(sk,), timebox=8 if tier == "quick" else 600, tag="free-inputs", params={"free_inputs": True}))
        S.append(dict(family="D3", skeleton=("succ", sk), timebox=8 if tier == "quick" else 600, tag="free-inputs", params={"free_inputs": True}))
    # a small (symbolic) max_motifs_per_node: a call may raise the documented limit error, but may never leave a node
    # expanded with a truncated successor list
    for sk in PLAIN:
        S.append(dict(family="U2", skeleton=(sk,), timebox=8 if tier == "quick" else 600, tag="cfg", params={"cfg": True}))
        S.append(dict(family="D3", skeleton=(sk,), timebox=8 if tier == "quick" else 600, tag="cfg", params={"cfg": True}))
    if tier == "thorough":
        pass
    else:
        for sk in PLAIN:
            S.append(dict(family="D3", skeleton=(sk,), timebox=25))
        # histories in which a stub's percolated Petri net is cached (from its parent's cached net) before it is expanded
        for sk in (("succ", "aseeds"), ("bfs", "aseeds"), ("succ", "minp"), ("bfs", "minp"), ("aseeds", "succ")):
            S.append(dict(family="D3", skeleton=sk, timebox=20))
    T = histcheck.mk_tasks(PROP, S, seed)
    # published models: canned histories of plain expansion calls with limits and start nodes; afterwards every expanded
    # node is decided by z3 to have exactly the maximal trap spaces inside it as motifs (checks/c02_models.py)
    import glob
    import os
    q = tier == "quick"
    # node identity for networks beyond the symbolic families: space_unique_key, translated from its current source, is decided
    # injective and item-order independent over all spaces of N variables (checks/c04_key_unit.py)
    for N in ((8, 31, 40) if q else (8, 31, 32, 40, 64, 96)):
        T.append({"prop": PROP, "family": "-", "label": f"key-unit/N={N}", "timebox": 30 if q else 200, "seed": seed,
                  "params": {"mode": "keyunit", "N": N, "budget": 150 if q else 1500}})
    mdir = os.path.join(os.environ.get("VERIF_REPO", "/repo"), "models/bbm-bnet-inputs-true")
    paths = sorted(glob.glob(os.path.join(mdir, "*.bnet")), key=os.path.getsize)
    small, mid = paths[:120], paths[120:180 if q else 210]
    for i in range(0, len(small), 12):
        T.append({"prop": PROP, "family": "-", "label": "models/small", "timebox": 15, "seed": seed,
                  "params": {"mode": "models", "models": small[i:i + 12], "strats": ["h1", "h2", "h3", "h4"], "max_nodes": 6 if q else 10}})
    for i in range(0, len(mid), 3):
        T.append({"prop": PROP, "family": "-", "label": "models/medium-large", "timebox": 20 if q else 150, "seed": seed,
                  "params": {"mode": "models", "models": mid[i:i + 3], "strats": ["h1", "h3"] if q else ["h1", "h2", "h3"], "max_nodes": 12 if q else 18}})
    return T


def main(tier, seed, t0, selftest=False):
    results = common.run_tasks(tasks(tier, seed, selftest))
    return common.finish(PROP, tier, seed, "model_checking", results, t0, selftest=selftest, functions=FUNCTIONS,
                         bounds={"history": "quick: K=1 on U2 exhaustive, K=2 on U2 time-boxed 12 s per skeleton, K=1 on D3 time-boxed; thorough: K<=2 on U2 to exhaustion, K=3 on U2 / K=2 on D3 / K=1 on U3 time-boxed",
                                 "limits": f"-1(None)..{hist.MAXLIM}", "start nodes": f"None or any existing id <= {hist.MAXNODE}",
                                 "published models": "four canned histories (single-node expansions youngest/oldest stub first; bfs(3) + minimal-space expansion from a stub + stack-limited dfs; size-limited attractor-seed expansion + level-limited bfs; two single-node expansions + size-limited block expansion without source shortcuts) on 120 small + 60 medium models (quick) / all 210 (thorough); afterwards every expanded node: motifs are trap spaces, maximal, percolate to the child, none missing (z3 over the validated Petri net / all states); no duplicate spaces; unexpanded nodes have no successors",
                                 "key unit": "space_unique_key injective and item-order independent over ALL spaces of an N-variable network, N in {8,31,40} (quick) / {8,31,32,40,64,96} (thorough); encoding width 4N+72 bits with a checked no-overflow bound; find_variable stubbed by its contract (index of the name)",
                                 "outside": "n>3, K>3, limits > 7 for the symbolic families; on the models only the final state of each history is decided, and the comparison with a fresh full expansion is not made"},
                         assumptions=["contract stubs of DESIGN.md §8 validated on every representative"])
