"""C16 — serialization and memory reclamation are transparent.
E-CAB relational: a history with pickle round-trip / reclaim_node_data inserted at one position is run next to
a twin without it (same symbolic parameters); every later observable (dump with ids, spaces, edges, motif
lists, flags, depths, seeds; return values) must coincide.  The solver contributes the network / parameter
coverage: the compared values are class-constant, so equality on the representative is equality on the class."""
from __future__ import annotations
import itertools
from engine import specs, ops
from checks import hist, histcheck, common

PROP = "C16"
FUNCTIONS = ["SuccessionDiagram.__getstate__/__setstate__", "SuccessionDiagram.reclaim_node_data",
             "SuccessionDiagram.node_percolated_network/petri_net/nfvs (recomputation on demand)",
             "SuccessionDiagram.node_attractor_candidates/seeds/sets"]
PREFIXES = [(), ("succ",), ("bfs",), ("seeds",), ("succ", "seeds"), ("succ", "cands"), ("dfs", "sets"), ("build",), ("succ", "skiprem")]
XS = [("pickle",), ("reclaim",), ("reclaim", "pickle")]
SUFFIXES = [("control",), ("fullbfs",), ("everyseeds",), ("succ", "everyseeds"), ("sets",), ("minp", "seeds"), ("aseeds",), ("skiprem", "everyseeds"),
            ("qcands",), ("cands",)]


def strip(dump):
    """observables that must be preserved (candidate lists may be replaced by the seeds after reclaim)"""
    d = dict(dump)
    d["nodes"] = [{k: v for k, v in n.items() if k not in ("attractor_candidates",)} for n in dump["nodes"]]
    return d


def execute(rules, skeleton, H, names, params):
    a, x, b = params["A"], params["X"], params["B"]
    sk1 = tuple(a) + tuple(x) + tuple(b)
    sk2 = tuple(a) + ("nop",) * len(x) + tuple(b)
    cfg1 = cfg2 = None
    if params.get("cfg"):
        # a non-default configuration must survive serialisation as well
        symbolic = isinstance(H, hist.SymH)
        cfg1 = hist.read_config(H, symbolic)
        cfg2 = hist.read_config(H, symbolic)
    _, t1 = hist.run_history(rules, sk1, H, names, attractors=True, config=cfg1)
    _, t2 = hist.run_history(rules, sk2, H, names, attractors=True, config=cfg2)
    return {"t1": t1, "t2": t2, "cut": len(a)}


def assertion(B, rules, skeleton, out, params):
    parts = []
    cut = out["cut"]
    nx = len(params["X"])
    for k, (e1, e2) in enumerate(zip(out["t1"], out["t2"])):
        if k < cut:
            continue
        if cut <= k < cut + nx:
            parts.append((f"{e1['kind']} at position {k} raised {e1['rec']['exc']}: {e1['rec'].get('msg')}", B.const(e1["rec"]["exc"] is None)))
            parts.append((f"after {e1['kind']} at position {k}: ids, spaces, edges, motifs, flags, depths, known seeds preserved",
                          B.const(strip(e1["dump"]) == strip(e2["dump"]))))
            continue
        same_ret = e1["rec"] == e2["rec"] or (e1["kind"] in ("cands", "qcands") and e1["rec"]["exc"] == e2["rec"]["exc"])
        parts.append((f"later op {k} {e1['kind']}: same answer as on the untouched diagram ({e1['rec']} vs {e2['rec']})", B.const(same_ret)))
        parts.append((f"after later op {k} {e1['kind']}: same diagram as the untouched one", B.const(strip(e1["dump"]) == strip(e2["dump"]))))
    return parts


def info(out):
    return {"ops": [(e["kind"], e["op"], e["rec"]["ret"] if not isinstance(e["rec"]["ret"], (list, dict)) else "..", e["rec"]["exc"]) for e in out["t1"]]}


def extra_vars(task, net):
    if task["params"].get("cfg"):
        return hist.declare_config()
    return [], []


def run_task(task):
    import checks.C16 as me
    return histcheck.run_task(task, me)


def replay(rec):
    import checks.C16 as me
    return histcheck.replay(rec, me)


def tasks(tier, seed, selftest=False):
    S = []
    q = tier == "quick"
    combos = list(itertools.product(PREFIXES, XS, SUFFIXES))
    if selftest:
        combos = combos[:1]
    for (a, x, b) in combos:
        sk = tuple(a) + tuple(x) + tuple(b)
        S.append(dict(family="U2", skeleton=sk, timebox=6 if q else 600, params={"A": list(a), "X": list(x), "B": list(b)}))
        if not q:
            S.append(dict(family="D3", skeleton=sk, timebox=120, params={"A": list(a), "X": list(x), "B": list(b)}))
    if not selftest:
        # symbolic non-default configuration (limits, thresholds) on both diagrams
        for (a, x, b) in [((), ("pickle",), ("fullbfs",)), ((), ("pickle",), ("everyseeds",)), (("succ",), ("pickle",), ("everyseeds",)),
                          (("succ",), ("reclaim", "pickle"), ("fullbfs", "everyseeds")), ((), ("pickle",), ("aseeds",)), (("bfs",), ("pickle",), ("minp", "seeds"))]:
            sk = tuple(a) + tuple(x) + tuple(b)
            S.append(dict(family="U2", skeleton=sk, timebox=15 if q else 600, tag="cfg", params={"A": list(a), "X": list(x), "B": list(b), "cfg": True}))
            S.append(dict(family="D3", skeleton=sk, timebox=10 if q else 600, tag="cfg", params={"A": list(a), "X": list(x), "B": list(b), "cfg": True}))
    if not selftest:
        # diagrams with a shortcut edge (a node with parents at different depths), both answer orders
        for (a, x, b) in [(("fullbfs",), ("pickle",), ("everyseeds",)), (("bfs",), ("pickle",), ("fullbfs",)), (("succ", "succ"), ("pickle",), ("fullbfs",)), (("fullbfs",), ("reclaim", "pickle"), ("summary",))]:
            sk = tuple(a) + tuple(x) + tuple(b)
            for order in ("canonical", "reversed"):
                S.append(dict(family="SKIP3", skeleton=sk, timebox=8 if q else 300, params={"A": list(a), "X": list(x), "B": list(b), "order": order}))
    if not selftest:
        # the network handed over as an OBJECT whose variables are declared in another order than the sorted one the text
        # loaders produce (a network built through the AEON API): pickling goes through text and re-sorts them
        for (a, x, b) in [(("succ",), ("pickle",), ("fullbfs",)), (("fullbfs",), ("pickle",), ("everyseeds",)), (("bfs",), ("pickle",), ("minp", "seeds")), ((), ("pickle",), ("fullbfs",))]:
            sk = tuple(a) + tuple(x) + tuple(b)
            for order in ("reversed", "rotated"):
                S.append(dict(family="D3", skeleton=sk, timebox=8 if q else 300, tag="decl-" + order, params={"A": list(a), "X": list(x), "B": list(b), "decl_order": order}))
                S.append(dict(family="U2", skeleton=sk, timebox=6 if q else 300, tag="decl-" + order, params={"A": list(a), "X": list(x), "B": list(b), "decl_order": order}))
    if q:
        for (a, x, b) in combos[::7]:
            sk = tuple(a) + tuple(x) + tuple(b)
            S.append(dict(family="D3", skeleton=sk, timebox=8, params={"A": list(a), "X": list(x), "B": list(b)}))
    return histcheck.mk_tasks(PROP, S, seed, selftest)


def main(tier, seed, t0, selftest=False):
    results = common.run_tasks(tasks(tier, seed, selftest))
    return common.finish(PROP, tier, seed, "model_checking", results, t0, selftest=selftest, functions=FUNCTIONS,
                         bounds={"history": "prefix A in " + str(PREFIXES) + "; X in pickle / reclaim / reclaim+pickle; suffix B in " + str(SUFFIXES),
                                 "families": "U2 (all combinations, time-boxed), D3 (sample in quick, all in thorough), SKIP3 (solver-constrained: diagrams with a shortcut edge; canonical and reversed answer order)",
                                 "config": "default, and (tag cfg) the five numeric configuration fields symbolic in {default} u 0..5 on both diagrams",
                                 "compared": "full dumps incl. ids and depths, seeds, has-sets flag, return values; candidate lists are not compared (reclaim may replace them by the seeds, as documented)"},
                         assumptions=["AEON to_aeon/from_aeon round trip preserves functions and variable order (the text is re-attached to its denotation; truth tables are the representative's)",
                                      "contract stubs of DESIGN.md §8 validated on every representative"])
