"""C09, public entry points: the real trappist() / compute_fixed_point_reduced_STG() are called on a symbolic network in
both input forms (BooleanNetwork, Petri net) with symbolic problem kind, enclosing subspace, 
explicit or default source list, up to two avoided subspaces and solution limit.  The answer of every call is an observation against the
definition (engine/oracles.py: w_trappist / w_rfp); a disagreement on a representative is a violation, replayed with
real clingo and judged by the explicit reference.  This covers the glue around the lifted encodings of checks/C09.py
(default source detection, variable lists, limits)."""
from __future__ import annotations
import z3
from engine import specs, symnet, ops
from engine.cab import CTX, SymInt, explore
from engine.ref import ConcreteNet, refines


def declare(n):
    vs, cs = [], []
    for nm in ("ens", "avo", "avb"):
        for i in range(n):
            v = z3.Int(f"{nm}{i}")
            vs.append(v)
            cs += [v >= -1, v <= 1]
    vs += [z3.Bool("use_avoid2"), z3.Bool("use_avoid"), z3.Bool("as_bn"), z3.Bool("default_sources"), z3.Bool("reverse"), z3.Int("problem"), z3.Int("limit")]
    cs += [z3.Int("problem") >= 0, z3.Int("problem") <= 2, z3.Int("limit") >= -1, z3.Int("limit") <= 4]
    # 'max' needs a free variable in the enclosing subspace
    cs.append(z3.Or([z3.Int(f"ens{i}") == -1 for i in range(n)]))
    # the avoided subspace is non-empty (the empty one makes trappist emit an empty-body constraint)
    cs.append(z3.Implies(z3.Bool("use_avoid"), z3.Or([z3.Int(f"avo{i}") >= 0 for i in range(n)])))
    # an optional second avoided subspace (only together with the first; non-empty)
    cs.append(z3.Implies(z3.Bool("use_avoid2"), z3.And(z3.Bool("use_avoid"), z3.Or([z3.Int(f"avb{i}") >= 0 for i in range(n)]))))
    return vs, cs


def read(names, hist, symbolic):
    n = len(names)
    if symbolic:
        ens = {nm: t for i, nm in enumerate(names) if (t := SymInt(z3.Int(f"ens{i}")).concrete()) >= 0}
        use_avoid = CTX.obs(z3.Bool("use_avoid"))
        avo = {nm: t for i, nm in enumerate(names) if (t := SymInt(z3.Int(f"avo{i}")).concrete()) >= 0} if use_avoid else None
        avo = [avo] if avo else []
        if use_avoid and CTX.obs(z3.Bool("use_avoid2")):
            avo.append({nm: t for i, nm in enumerate(names) if (t := SymInt(z3.Int(f"avb{i}")).concrete()) >= 0})
        as_bn = CTX.obs(z3.Bool("as_bn"))
        dsrc = CTX.obs(z3.Bool("default_sources"))
        rev = CTX.obs(z3.Bool("reverse"))
        problem = ("min", "max", "fix")[SymInt(z3.Int("problem")).concrete()]
        lim = SymInt(z3.Int("limit")).concrete()
    else:
        ens = {nm: int(hist[f"ens{i}"]) for i, nm in enumerate(names) if hist.get(f"ens{i}", -1) >= 0}
        use_avoid = bool(hist.get("use_avoid"))
        avo = {nm: int(hist[f"avo{i}"]) for i, nm in enumerate(names) if hist.get(f"avo{i}", -1) >= 0} if use_avoid else None
        avo = [avo] if avo else []
        if use_avoid and hist.get("use_avoid2"):
            avo.append({nm: int(hist[f"avb{i}"]) for i, nm in enumerate(names) if hist.get(f"avb{i}", -1) >= 0})
        as_bn, dsrc = bool(hist.get("as_bn")), bool(hist.get("default_sources"))
        rev = bool(hist.get("reverse"))
        problem = ("min", "max", "fix")[int(hist.get("problem", 0))]
        lim = int(hist.get("limit", -1))
    return ens, avo, as_bn, dsrc, problem, (None if lim < 0 else lim), rev


def execute(rules, names, hist, symbolic):
    import biobalm.succession_diagram as SDM
    ens, avo, as_bn, dsrc, problem, lim, rev = read(names, hist, symbolic)
    bn = SDM.cleanup_network(SDM.BooleanNetwork.from_bnet(rules))
    pn = SDM.network_to_petrinet(bn)
    src = None if dsrc else list(SDM.extract_source_variables(pn))
    r = ops.guarded(lambda: SDM.trappist(bn if as_bn else pn, problem=problem, reverse_time=rev, ensure_subspace=ens, avoid_subspaces=list(avo),
                                         optimize_source_variables=src, solution_limit=lim))
    out = {"exc": r["exc"], "msg": r.get("msg"), "args": {"ensure": ens, "avoid": avo, "as_bn": as_bn, "default_sources": dsrc, "problem": problem, "limit": lim, "reverse": rev}}
    if r["exc"] is None:
        out["answer"] = [ops._t(names, s) for s in r["ret"]]
    # the reduced-STG solver with the enclosing space as retained set on its free complement is exercised through the
    # candidate pipeline (C08); here: plain fixed points of the net under the same ensure / avoid
    r2 = ops.guarded(lambda: SDM.compute_attractor_candidates.__globals__["compute_fixed_point_reduced_STG"](
        pn, {}, ensure_subspace=ens, avoid_subspaces=list(avo), solution_limit=lim))
    out["rfp_exc"] = r2["exc"]
    if r2["exc"] is None:
        out["rfp"] = [ops._t(names, s) for s in r2["ret"]]
    return out


def assertion(B, out, symbolic):
    parts = [(f"trappist raised {out['exc']}: {out.get('msg')}", B.const(out["exc"] is None)),
             (f"compute_fixed_point_reduced_STG raised {out['rfp_exc']}", B.const(out["rfp_exc"] is None))]
    if out["exc"] or out["rfp_exc"]:
        return parts
    a = out["args"]
    n = B.n
    t = lambda d: tuple((int(d[nm]) if d and nm in d else None) for nm in B.names)
    E = (None,) * n
    ens = t(a["ensure"])
    avoid = tuple(t(x) for x in (a["avoid"] or []))
    ans = [tuple(x) for x in out["answer"]]
    parts.append(("no duplicate answers", B.const(len(set(ans)) == len(ans))))
    # sources: identity update functions (default and explicit lists coincide by definition)
    srcs_cases = None
    if a["problem"] == "max":
        # the set of source variables is symbolic: case split over it through src-aware candidates
        def ok(M):
            return B.And([B.rtrap(M) if a.get("reverse") else B.trap(M)] + [B.Not(B.is_source(v, E)) for v in range(n) if M[v] is None and ens[v] is None])
        free = [v for v in range(n) if ens[v] is None]
        cands = [M for M in B.subspaces if refines(M, ens) and any(M[v] is not None for v in free) and not any(refines(M, x) for x in avoid)]
        spec = {M: B.And([ok(M)] + [B.Not(ok(M2)) for M2 in cands if M2 != M and refines(M, M2)]) for M in cands}
    else:
        spec = B.trappist_spec(a["problem"], E, None, ens, (), avoid, reverse=bool(a.get("reverse")))
    lim = a["limit"]
    if lim is None:
        for M, f in spec.items():
            parts.append((f"{B.sstr(M)} returned iff it is a requested trap space", B.Iff(f, B.const(M in ans))))
        parts.append(("every answer is a candidate", B.const(all(M in spec for M in ans))))
    else:
        for M in ans:
            parts.append((f"answer {B.sstr(M)} (limit {lim}) is a requested trap space", spec.get(M, B.const(False))))
        parts.append(("a solution limit only truncates", B.const(len(ans) <= max(lim, 0))))
        # not fewer than min(limit, number of solutions): if fewer than the limit were returned, nothing else qualifies
        if len(ans) < lim:
            for M, f in spec.items():
                if M not in ans:
                    parts.append((f"{B.sstr(M)} not returned although the limit was not reached, so not a requested trap space", B.Not(f)))
    fp = [tuple(x) for x in out["rfp"]]
    fspec = B.rfp_spec(E, None, {}, ens, avoid)
    if lim is None:
        for y, f in fspec.items():
            parts.append((f"fixed point {y} returned iff it is one", B.Iff(f, B.const(y in fp))))
    else:
        for y in fp:
            parts.append((f"fixed point {y} (limit {lim}) is one", fspec.get(y, B.const(False))))
        parts.append(("fixed-point limit only truncates", B.const(len(fp) <= max(lim, 0))))
    return parts


def run_task(task):
    from engine import oracles
    oracles.install()
    oracles.LIST_ORDER = "real"
    net = symnet.family(task["family"])
    vs, cs = declare(net.n)
    selftest = task["params"].get("selftest")

    def harness(ctx, rules):
        out = execute(rules, net.names, None, True)
        parts = assertion(net, out, True)
        if selftest:
            parts.append(("selftest", net.FALSE))
        return specs.conj(net, parts), out["args"]
    cube = [net.bits[i] if v else z3.Not(net.bits[i]) for i, v in task.get("cube", [])]
    res = explore(net, harness, extra_vars=vs, extra_constraints=cs, cube=cube, timebox=task["timebox"], seed=task.get("seed", 0), label=task["label"],
                  start_at=task.get("start_at"), max_classes=task.get("max_classes"))
    res["violations"] = res["violations"][:4] + [{"rules": v["rules"], "hist": v["hist"], "kind": v["kind"]} for v in res["violations"][4:40]]
    return res


def replay(rec):
    B = ConcreteNet.from_bnet(rec["rules"])
    out = execute(rec["rules"], B.names, rec.get("hist", {}), False)
    parts = assertion(B, out, False)
    if rec["params"].get("selftest"):
        parts.append(("selftest", False))
    failing = specs.failing_parts(B, parts)
    return {"reproduces": bool(failing), "failing": failing[:6], "signature": None}
