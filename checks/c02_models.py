"""C02 on the published models (5-321 variables): for the expanded nodes of a size-limited BFS / DFS expansion z3 decides

  * the node's space is closed under percolation (least fixed point of propagation, z3 constant-tests over all states,
    checks/c11_models.py) and is a trap space; no space occurs as two nodes; the root is the percolation of the whole space;
  * every stable motif listed on an outgoing edge is a trap space strictly inside the node, is MAXIMAL (no trap space
    strictly between it and the node's space), and percolates exactly to the edge's child;
  * NO other maximal trap space exists: no trap space strictly inside the node avoids all listed motifs
    (at the root of a network with source variables: among those fixing every source);
  * a node that is expanded and has no successors contains no trap space strictly inside it (it is minimal).

Trap spaces are characterised propositionally over the model's Petri net (allowed places, one clause per transition;
checks/models_tv.py); the net's equivalence with the update functions over all states is C10's per-model verdict."""
from __future__ import annotations
import os
import sys
import time
import z3

FUNCTIONS = ["SuccessionDiagram.expand_bfs / expand_dfs (size-limited)", "SuccessionDiagram._expand_one_node", "trappist_core.trappist (max)",
             "space_utils.percolate_space", "SuccessionDiagram.edge_all_stable_motifs"]


def run_history(sd, strat, max_nodes):
    """bfs / dfs: one size-limited call (C02).  h1-h3: canned sequences of plain expansion calls with limits and start
    nodes (C04: every expanded node has exactly the successors and motifs of the full diagram at every moment)"""
    if strat == "bfs":
        sd.expand_bfs(size_limit=max_nodes)
    elif strat == "dfs":
        sd.expand_dfs(size_limit=max_nodes)
    elif strat == "h1":
        sd.expand_bfs(size_limit=3)
        stubs = sorted(sd.stub_ids())
        if stubs:
            sd.expand_minimal_spaces(node_id=stubs[-1], size_limit=max_nodes)
        sd.expand_dfs(dfs_stack_limit=2, size_limit=max_nodes + 4)
    elif strat == "h2":
        sd.expand_attractor_seeds(size_limit=max_nodes)
        sd.expand_bfs(bfs_level_limit=1, size_limit=max_nodes + 4)
    elif strat == "h4":
        # single-node expansions in an order no strategy uses: the youngest stub first, one node at a time
        sd.node_successors(sd.root(), compute=True)
        for _ in range(max_nodes):
            stubs = sorted(sd.stub_ids())
            if not stubs or len(sd) > 4 * max_nodes:
                break
            sd.expand_bfs(node_id=stubs[-1], bfs_level_limit=0)
            stubs = sorted(sd.stub_ids())
            if stubs:
                sd.expand_bfs(node_id=stubs[0], bfs_level_limit=0)
    elif strat == "h3":
        kids = sd.node_successors(sd.root(), compute=True)
        if kids:
            sd.node_successors(sorted(kids)[-1], compute=True)
        sd.expand_block(optimize_source_nodes=False, find_motif_avoidant_attractors=False, size_limit=max_nodes + 2)
    else:
        raise KeyError(strat)


def check_model(path, strat="bfs", max_nodes=6, selftest=False):
    import biobalm
    from biobalm.interaction_graph_utils import source_nodes
    from checks.C10 import parse_bnet, parse_expr
    from checks.models_tv import pn_transitions
    from checks.c11_models import ConstOracle, lfp
    sys.setrecursionlimit(60000)
    text = open(path).read()
    label = os.path.basename(path) + "/" + strat
    rules = parse_bnet(text)
    V = {}
    var = lambda nm: V.setdefault(nm, z3.Bool("x_" + nm))
    F = {nm: parse_expr(e, var) for nm, e in rules}
    names = [nm for nm, _ in rules]
    sd = biobalm.SuccessionDiagram.from_rules(text)
    if sorted(sd.network.variable_names()) != sorted(names):
        return {"skipped": True, "queries": 0}, []
    run_history(sd, strat, max_nodes)
    orc = ConstOracle(F, var)
    trans = pn_transitions(sd.petri_net)
    A = {(nm, b): z3.Bool(f"al_{nm}_{b}") for nm in names for b in (0, 1)}
    s = z3.Solver()
    s.set("timeout", 120000)
    s.add([z3.Or(A[(nm, 0)], A[(nm, 1)]) for nm in names])
    for pre, ch, b in trans:
        s.add(z3.Implies(z3.And([A[(k, v)] for k, v in pre.items()]), A[(ch, b)]))
    fails, q = [], 0

    def closed(T):
        ok = lambda k, v: T.get(k, v) == v
        return all(not all(ok(k, v) for k, v in pre.items()) or ok(ch, b) for pre, ch, b in trans)

    def inside(T):          # M is a subspace of T
        return [z3.Not(A[(nm, 1 - b)]) for nm, b in T.items()]

    def contains(T):        # M contains T
        return z3.And([A[(nm, b)] for nm in names for b in (0, 1) if T.get(nm, b) == b])

    def strictly_smaller_than(T):     # M != T given M inside T
        free = [nm for nm in names if nm not in T]
        return z3.Or([z3.Not(A[(nm, b)]) for nm in free for b in (0, 1)]) if free else z3.BoolVal(False)
    spaces = {}
    for i in sd.node_ids():
        if not sd.node_data(i)["expanded"] and sd.dag.out_degree(i) > 0:       # type: ignore
            fails.append(f"{label}: unexpanded node {i} has successors")
        key = tuple(sorted(sd.node_data(i)["space"].items()))
        if key in spaces:
            fails.append(f"{label}: nodes {spaces[key]} and {i} have the same space")
        spaces[key] = i
    root = sd.root()
    want_root, _ = lfp(orc, names, {})
    if dict(sd.node_data(root)["space"]) != want_root:
        fails.append(f"{label}: the root is not the percolation of the whole space")
    srcs = set(source_nodes(sd.network))
    checked = 0
    # the root first, then the deepest expanded nodes (large fixed parts are where size-dependent code paths live)
    order = sorted(sd.expanded_ids(), key=lambda i: (i != root, -sd.node_data(i)["depth"], i))
    for nid in order[:max(6, max_nodes // 3)]:
        nd = sd.node_data(nid)
        if not nd["expanded"] or nd.get("skipped"):
            continue
        S = dict(nd["space"])
        checked += 1
        if not closed(S):
            fails.append(f"{label}: node {nid} is not a trap space")
        X, _ = lfp(orc, names, S)
        if X != S:
            fails.append(f"{label}: node {nid} is not closed under percolation")
        motifs = []
        for c in sd.node_successors(nid):
            Cs = dict(sd.node_data(c)["space"])
            for m in sd.edge_all_stable_motifs(nid, c, reduced=False):
                m = dict(m)
                motifs.append(m)
                if not (all(m.get(k) == v for k, v in S.items()) and m != S):
                    fails.append(f"{label}: motif on edge {nid}->{c} is not strictly inside the node")
                if not closed(m):
                    fails.append(f"{label}: motif on edge {nid}->{c} is not a trap space")
                Y, _ = lfp(orc, names, m)
                if Y != Cs:
                    fails.append(f"{label}: motif on edge {nid}->{c} does not percolate to the child")
                # maximal: no trap space strictly between m and S
                s.push()
                s.add(inside(S))
                s.add(strictly_smaller_than(S))
                s.add(contains(m))
                s.add(z3.Or([A[(nm, 1 - b)] for nm, b in m.items() if nm not in S]))        # M != m (something fixed in m is free in M)
                if nid == root and srcs:
                    s.add([z3.Not(z3.And(A[(nm, 0)], A[(nm, 1)])) for nm in srcs])
                r = s.check()
                q += 1
                s.pop()
                if r == z3.sat:
                    fails.append(f"{label}: motif {dict(list(m.items())[:5])} on edge {nid}->{c} is not a maximal trap space of the node")
                elif r != z3.unsat:
                    fails.append(f"{label}: unknown")
        # completeness: a trap space strictly inside S that no listed motif contains
        s.push()
        s.add(inside(S))
        s.add(strictly_smaller_than(S))
        if nid == root and srcs:
            s.add([z3.Not(z3.And(A[(nm, 0)], A[(nm, 1)])) for nm in srcs])
        for m in motifs:
            # M inside m  <=>  every value fixed by m is the only one allowed in M
            s.add(z3.Or([A[(nm, 1 - b)] for nm, b in m.items()]))
        r = s.check()
        q += 1
        s.pop()
        if r == z3.sat:
            fails.append(f"{label}: node {nid} has a trap space strictly inside it that none of its {len(motifs)} listed stable motifs contains (a successor is missing)")
        elif r != z3.unsat:
            fails.append(f"{label}: unknown")
    if selftest:
        fails.append(label + ": selftest")
    return {"variables": len(names), "nodes_checked": checked, "queries": q + orc.queries}, fails


def run_task(task):
    t0 = time.time()
    try:
        fd = os.open(os.path.join(os.path.dirname(os.path.dirname(os.path.abspath(__file__))), "scratch", "worker_stderr.log"), os.O_WRONLY | os.O_CREAT | os.O_APPEND)
        os.dup2(fd, 2)
    except OSError:
        pass
    viol, inconc, samples = [], [], []
    q = n = skipped = 0
    for p in task["params"]["models"]:
        for strat in task["params"].get("strats", ["bfs"]):
            if time.time() - t0 > task.get("timebox", 60) * 4:
                skipped += 1
                continue
            try:
                info, fails = check_model(p, strat, max_nodes=task["params"].get("max_nodes", 6), selftest=bool(task["params"].get("selftest")))
            except Exception as e:
                inconc.append({"reason": f"model {os.path.basename(p)}: {type(e).__name__}: {e}"[:300]})
                continue
            n += info.get("nodes_checked", 0)
            q += info.get("queries", 0)
            if len(samples) < 2:
                samples.append({"model": os.path.basename(p), "strategy": strat, **info})
            for f in fails[:2]:
                if f.endswith("unknown"):
                    inconc.append({"reason": f})
                else:
                    viol.append({"rules": "", "hist": {}, "kind": "model", "info": {"model": p, "strat": strat, "max_nodes": task["params"].get("max_nodes", 6), "fail": f}})
    return {"label": task["label"], "classes": n, "exhausted": True, "violations": viol[:6], "inconclusive": inconc[:3], "observations": q,
            "samples": samples, "queries": {"model_queries": q, "model_runs_skipped_time_cap": skipped}, "z3_s": 0, "real_s": time.time() - t0,
            "wall_s": time.time() - t0, "hangs": []}


def replay(rec):
    info, fails = check_model(rec["info"]["model"], rec["info"].get("strat", "bfs"), max_nodes=rec["info"].get("max_nodes", 6), selftest=bool(rec["params"].get("selftest")))
    return {"reproduces": bool(fails), "failing": fails[:4], "signature": None}
