"""Feasibility prototype: concolic exploration at the contract boundary (trappist/percolate_space) of
real SuccessionDiagram.expand_bfs over ALL networks with n variables (symbolic truth tables)."""
import itertools, sys, time
import z3
import biobalm, biobalm.succession_diagram as SDM
from biobalm import SuccessionDiagram
from biobalm.trappist_core import trappist as real_trappist
from biobalm.space_utils import percolate_space as real_percolate

n = int(sys.argv[1]) if len(sys.argv) > 1 else 2
MAXCLASSES = int(sys.argv[2]) if len(sys.argv) > 2 else 10**9
names = [chr(97+i) for i in range(n)]
states = list(itertools.product((0,1), repeat=n))
subspaces = list(itertools.product((0,1,None), repeat=n))
F = {v: {x: z3.Bool(f"F_{names[v]}_{''.join(map(str,x))}") for x in states} for v in range(n)}

def sp2t(sp): return tuple(sp.get(nm) for nm in names)
def t2sp(t): return {names[i]: t[i] for i in range(n) if t[i] is not None}
def inS(x,S): return all(s is None or s==xi for xi,s in zip(x,S))
def refines(M,S): return all(s is None or s==m for m,s in zip(M,S))  # M subset of S
def lit(v,x,b): return F[v][x] if b else z3.Not(F[v][x])
solver = z3.Solver()
C = {}
for v in range(n):
    for b in (0,1):
        for S in subspaces:
            a = z3.Bool(f"C_{v}_{b}_{''.join('*' if s is None else str(s) for s in S)}")
            solver.add(a == z3.And([lit(v,x,b) for x in states if inS(x,S)]))
            C[v,b,S] = a
TRAP = {}
for S in subspaces:
    a = z3.Bool("T_"+''.join('*' if s is None else str(s) for s in S))
    solver.add(a == z3.And([C[v,S[v],S] for v in range(n) if S[v] is not None]))
    TRAP[S]=a
def const(v,b,S): return C[v,b,S]
_pe = {}
def spec_perc_eq(S,R):
    if (S,R) in _pe: return _pe[S,R]
    assert refines(R,S)
    closed = z3.And([z3.Not(C[v,b,R]) for v in range(n) if R[v] is None for b in (0,1)])
    new = [v for v in range(n) if S[v] is None and R[v] is not None]
    alts=[]
    for perm in itertools.permutations(new):
        cur=list(S); cs=[]
        for v in perm:
            cs.append(C[v,R[v],tuple(cur)]); cur[v]=R[v]
        alts.append(z3.And(cs) if cs else z3.BoolVal(True))
    f = z3.And(closed, z3.Or(alts))
    _pe[S,R]=f
    return f


def spec_max(S, srcs):
    """dict M -> formula 'M is in result of trappist(max, ensure=S, optimize_source=srcs)'"""
    cands = [M for M in subspaces if refines(M,S) and M!=S and all(M[names.index(s)] is not None for s in srcs)]
    res = {}
    for M in cands:
        bigger = [M2 for M2 in cands if M2!=M and refines(M,M2)]
        res[M] = z3.And(TRAP[M], *[z3.Not(TRAP[M2]) for M2 in bigger])
    return res


def min_trap_formula(M):
    smaller = [M2 for M2 in subspaces if M2!=M and refines(M2,M)]
    return z3.And(TRAP[M], *[z3.Not(TRAP[M2]) for M2 in smaller])

def model_to_rules(m):
    lines=[]
    for v in range(n):
        terms=[]
        for x in states:
            if z3.is_true(m.eval(F[v][x], model_completion=True)):
                terms.append("("+" & ".join((names[j] if x[j] else "!"+names[j]) for j in range(n))+")")
        f = " | ".join(terms) if terms else "false"
        if len(terms)==len(states): f="true"
        lines.append(f"{names[v]}, {f}")
    return "\n".join(lines)

obs = []
def w_trappist(network, problem="min", reverse_time=False, solution_limit=None, ensure_subspace=None, avoid_subspaces=None, optimize_source_variables=None):
    r = real_trappist(network, problem=problem, reverse_time=reverse_time, solution_limit=solution_limit, ensure_subspace=ensure_subspace, avoid_subspaces=avoid_subspaces, optimize_source_variables=optimize_source_variables)
    assert problem=="max" and not reverse_time and not avoid_subspaces
    obs.append(("max", sp2t(ensure_subspace or {}), tuple(optimize_source_variables or ()), frozenset(sp2t(x) for x in r)))
    return r
def w_perc(network, space):
    r = real_percolate(network, space)
    obs.append(("perc", sp2t(space), sp2t(r)))
    return r
SDM.trappist = w_trappist
SDM.percolate_space = w_perc

t0=time.time(); classes=0; zt=0.0; rt=0.0
while classes < MAXCLASSES:
    t1=time.time()
    if solver.check() != z3.sat: break
    m = solver.model(); zt += time.time()-t1
    rules = model_to_rules(m)
    obs.clear()
    t1=time.time()
    sd = SuccessionDiagram.from_rules(rules)
    # source variables observation: extract_source_variables at root depends on F: sources = vars with f==x
    ok = sd.expand_bfs()
    rt += time.time()-t1
    t1=time.time()
    pc=[]
    for o in obs:
        if o[0]=="max":
            _,S,srcs,res = o
            spec = spec_max(S, srcs)
            for M,fm in spec.items():
                pc.append(fm if M in res else z3.Not(fm))
            # sources observation (identity function <=> listed) at root only
        else:
            _,S,R = o
            pc.append(spec_perc_eq(S,R))
    # source-variable set is an observation too: var v is source iff f_v == x_v everywhere (no PN transitions)
    from biobalm.petri_net_translation import extract_source_variables
    srcs = set(extract_source_variables(sd.petri_net))
    for v in range(n):
        issrc = z3.And([F[v][x] == bool(x[v]) for x in states])
        pc.append(issrc if names[v] in srcs else z3.Not(issrc))
    PC = z3.And(pc)
    # assertion: leaves == minimal trap spaces ; every node is trap
    leaves = {sp2t(sd.node_data(i)["space"]) for i in sd.minimal_trap_spaces()}
    nodes = {sp2t(sd.node_data(i)["space"]) for i in sd.node_ids()}
    A = z3.And([ (min_trap_formula(M) if M in leaves else z3.Not(min_trap_formula(M))) for M in subspaces] + [TRAP[M] for M in nodes])
    solver.push(); solver.add(PC, z3.Not(A))
    r = solver.check(); s2 = solver
    if r != z3.unsat:
        print("COUNTEREXAMPLE in class of", rules, r); print(model_to_rules(s2.model()) if r==z3.sat else ""); break
    # sanity: representative satisfies its own PC
    solver.pop()
    solver.push(); solver.add(PC); solver.add([F[v][x] == m.eval(F[v][x], model_completion=True) for v in range(n) for x in states])
    assert solver.check()==z3.sat, ("spec mismatch on representative", rules, obs)
    solver.pop()
    solver.add(z3.Not(PC))
    zt += time.time()-t1
    classes+=1
    if classes % 200 == 0: print(classes, f"{time.time()-t0:.1f}s z3={zt:.1f} real={rt:.1f}", flush=True)
print("n",n,"classes",classes,"time",time.time()-t0, "z3",zt,"real",rt, "exhausted", solver.check()==z3.unsat if classes<MAXCLASSES else None)
