import sys, faulthandler, signal
sys.path.insert(0,'/tmp/probe')
from biobalm import SuccessionDiagram
rules="""A, (!A & !B & !C) | (A & !B & !C)
B, (A & !B & !C) | (A & !B & C) | (A & B & !C) | (A & B & C)
C, (!A & !B & C) | (!A & B & C) | (A & !B & C) | (A & B & C)"""
faulthandler.dump_traceback_later(8, exit=True)
cfg=SuccessionDiagram.default_config(); cfg["debug"]=True
sd=SuccessionDiagram.from_rules(rules,config=cfg)
print(sd.node_attractor_seeds(0,compute=True))
