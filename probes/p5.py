import sys, random, signal
sys.path.insert(0,'/tmp/probe')
from ref import *
from biobalm import SuccessionDiagram
class TO(Exception): pass
def h(*a): raise TO()
signal.signal(signal.SIGALRM,h)
rng=random.Random(int(sys.argv[1])); N=int(sys.argv[2])
mode=sys.argv[3]
stats={}
def sp2t(names,sp): return tuple(sp.get(nm) for nm in names)
for it in range(N):
    n=rng.choice([2,3,3,4,4])
    names,rules,tts=rand_rules(n,rng)
    atts=attractors(n,tts)
    try:
        signal.alarm(20)
        sd=SuccessionDiagram.from_rules(rules)
        if mode=="build":
            sd.expand_block()
            seeds=sd.expanded_attractor_seeds()
        elif mode=="bfs":
            sd.expand_bfs(); seeds=sd.expanded_attractor_seeds()
        elif mode=="scc":
            sd.expand_scc(); seeds=sd.expanded_attractor_seeds()
        elif mode=="aseeds":
            sd.expand_attractor_seeds(); seeds=sd.expanded_attractor_seeds()
        elif mode=="min":
            sd.expand_minimal_spaces(); seeds=sd.expanded_attractor_seeds()
        elif mode=="skip":
            sd.expand_bfs(size_limit=rng.choice([1,2,3,4])); sd.skip_remaining()
            seeds={i:sd.node_attractor_seeds(i,compute=True) for i in sd.node_ids()}
        elif mode=="stub":
            seeds={0:sd.node_attractor_seeds(0,compute=True)}
        signal.alarm(0)
    except TO:
        print("TIMEOUT",mode); print(rules); continue
    except Exception as e:
        signal.alarm(0)
        print("EXC",mode,type(e).__name__,e); print(rules); continue
    allseeds=[tuple(s[nm] for nm in names) for ss in seeds.values() for s in ss]
    # each seed in an attractor; count per attractor
    cnt={a:0 for a in atts}; bad=False
    for s in allseeds:
        hit=[a for a in atts if s in a]
        if not hit: bad=True; print("SEED NOT IN ATTRACTOR",mode,s); 
        else: cnt[hit[0]]+=1
    if mode in("skip",):
        if any(c==0 for c in cnt.values()): bad=True; print("MISSING ATTRACTOR",mode)
    elif mode=="min":
        pass
    else:
        if any(c!=1 for c in cnt.values()): bad=True; print("COUNT MISMATCH",mode,sorted(cnt.values()))
    # minimal traps
    if mode!="stub":
        mt={sp2t(names,sd.node_data(i)["space"]) for i in sd.minimal_trap_spaces()}
        if mode not in ("skip",) or True:
            if mt!=set(min_traps(n,tts)): bad=True; print("MINTRAP MISMATCH",mode,mt,min_traps(n,tts))
    if bad: print(rules); print('---')
print("done",mode)
