import random, itertools, sys
from biobalm import SuccessionDiagram
import networkx as nx
from biodivine_aeon import BooleanNetwork

def rand_net(n, rng):
    names = [chr(65+i) for i in range(n)]
    lines=[]
    for v in names:
        # random truth table -> DNF
        tt = [rng.random()<0.5 for _ in range(2**n)]
        terms=[]
        for idx,b in enumerate(tt):
            if b:
                lits=[(names[j] if (idx>>j)&1 else "!"+names[j]) for j in range(n)]
                terms.append("("+" & ".join(lits)+")")
        f = " | ".join(terms) if terms else "false"
        if len(terms)==2**n: f="true"
        lines.append(f"{v}, {f}")
    return "\n".join(lines)

def check_depth(sd):
    bad=[]
    for i in sd.node_ids():
        lp = max((len(p)-1 for p in nx.all_simple_paths(sd.dag, 0, i)), default=0)
        if lp != sd.node_data(i)["depth"]:
            bad.append((i, lp, sd.node_data(i)["depth"]))
    return bad

rng = random.Random(int(sys.argv[1]) if len(sys.argv)>1 else 0)
found=0
for it in range(3000):
    n = rng.choice([3,3,4])
    rules = rand_net(n, rng)
    try:
        sd = SuccessionDiagram.from_rules(rules)
        sd.expand_dfs()
    except Exception as e:
        print("EXC", type(e), e); print(rules); continue
    bad = check_depth(sd)
    if bad:
        found+=1
        if found<=2:
            print("DEPTH MISMATCH", bad); print(rules)
print("done", found)
