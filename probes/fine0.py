"""Feasibility probe: fine-mode E-CAB on the REAL biobalm symbolic_attractor_test, with symbolic-denotation
vertex sets over a symbolic network. Pure-symbolic proxies (no dual real objects) to keep the probe short."""
import sys, itertools, time
import z3
sys.path.insert(0, "/tmp/probe/shim2")   # shim2/biodivine_aeon = permissive fake so biobalm imports
import types
n = int(sys.argv[1]) if len(sys.argv) > 1 else 2
MODE = sys.argv[2] if len(sys.argv) > 2 else "natural"   # natural | decline
names = [chr(97+i) for i in range(n)]
states = list(itertools.product((0,1), repeat=n))
F = {v: {x: z3.Bool(f"F_{v}_{''.join(map(str,x))}") for x in states} for v in range(n)}
def flip(x,v): y=list(x); y[v]=1-y[v]; return tuple(y)
class Budget(Exception): pass
class Ctx:
    model=None; pc=[]; steps=0; sizes=0
C=Ctx()
def ev(e): return z3.is_true(C.model.eval(e, model_completion=True))
def observe(e, what=""):
    b = ev(e); C.pc.append(e if b else z3.Not(e)); return b
class VS:
    def __init__(self, d): self.d=d
    def union(self,o): return VS({x: z3.Or(self.d[x],o.d[x]) for x in states})
    def intersect(self,o): return VS({x: z3.And(self.d[x],o.d[x]) for x in states})
    def minus(self,o): return VS({x: z3.And(self.d[x],z3.Not(o.d[x])) for x in states})
    def is_empty(self):
        C.steps+=1
        if C.steps>400: raise Budget()
        return observe(z3.Not(z3.Or(list(self.d.values()))))
    def symbolic_size(self):
        C.sizes+=1
        if MODE=="decline": return 0 if C.sizes%2==1 else 1   # avoid.size()=0 < updated.size()=1 -> growth declined
        # natural: concretise the set (constrain denotation to its concrete content), size = cardinality proxy
        k=0
        for x in states:
            if observe(self.d[x]): k+=1
        return k
    def to_bdd(self): return self
    def r_select(self, sel):
        (var,val),=sel.items()
        return VS({x: (self.d[x] if x[var]==val else z3.BoolVal(False)) for x in states})
    def is_false(self): return self.is_empty()
class SymCtx:
    def find_network_bdd_variable(self,name): return names.index(name)
class Graph:
    def mk_subspace(self, sp): return VS({x: z3.BoolVal(all(x[names.index(k)]==v for k,v in sp.items())) for x in states})
    def mk_empty_colored_vertices(self): return VS({x: z3.BoolVal(False) for x in states})
    def network_variables(self): return list(range(n))
    def find_network_variable(self,name): return names.index(name)
    def symbolic_context(self): return SymCtx()
    def var_post_out(self,v,s):
        # y not in s, y = flip(x,v), x in s, f_v(x) != x_v
        return VS({y: z3.And(z3.Not(s.d[y]), s.d[flip(y,v)], F[v][flip(y,v)] == bool(y[v])) for y in states})
    def var_pre_out(self,v,s):
        # x not in s with successor flip(x,v) in s
        return VS({x: z3.And(z3.Not(s.d[x]), s.d[flip(x,v)], F[v][x] != bool(x[v])) for x in states})
class FakeNet:
    def variable_count(self): return n
    def variables(self): return list(range(n))
    def predecessors(self,v): return list(range(n))
class FakeSD:
    config={"debug":False}
    def node_percolated_network(self,i): return FakeNet()
from biobalm._sd_attractors.attractor_symbolic import symbolic_attractor_test
# spec: REACH by squaring
R={x:{y: z3.BoolVal(x==y) for y in states} for x in states}
for x in states:
    for v in range(n):
        y=flip(x,v); R[x][y]=z3.Or(R[x][y], F[v][x]!=bool(x[v]))
k=1
while k < len(states):
    R={x:{y: z3.Or([z3.And(R[x][z],R[z][y]) for z in states]) for y in states} for x in states}; k*=2
solver=z3.Solver()
# reach atoms definitional
RA={x:{y:z3.Bool(f"R_{x}_{y}") for y in states} for x in states}
for x in states:
    for y in states: solver.add(RA[x][y]==R[x][y])
pivot=states[0]; avoid0=[states[-1]]
t0=time.time(); classes=0; loops=0; loopex=None
while True:
    if solver.check()!=z3.sat: break
    C.model=solver.model(); C.pc=[]; C.steps=0; C.sizes=0
    g=Graph()
    av=VS({x: z3.BoolVal(x in avoid0) for x in states})
    try:
        res=symbolic_attractor_test(FakeSD(),0,g,dict(zip(names,pivot)),av)
        looped=False
    except Budget:
        looped=True; loops+=1
        if loopex is None: loopex={v:{x:ev(F[v][x]) for x in states} for v in range(n)}
    PC=z3.And(C.pc) if C.pc else z3.BoolVal(True)
    if not looped:
        hit=z3.Or([RA[pivot][a] for a in avoid0])
        if res is None: A=hit
        else: A=z3.And(z3.Not(hit), *[res.d[y]==RA[pivot][y] for y in states])
        solver.push(); solver.add(PC, z3.Not(A)); r=solver.check()
        if r!=z3.unsat: print("CEX",r); break
        solver.pop()
    solver.add(z3.Not(PC)); classes+=1
print(f"n={n} mode={MODE} classes={classes} loops={loops} time={time.time()-t0:.1f}s exhausted={solver.check()==z3.unsat}")
if loopex:
    for v in range(n):
        terms=["("+" & ".join((names[j].upper() if x[j] else "!"+names[j].upper()) for j in range(n))+")" for x in states if loopex[v][x]]
        print(f"{names[v].upper()}, "+(" | ".join(terms) if terms else "false"))
