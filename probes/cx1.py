from typing import Dict, List, Optional, Tuple
from biobalm.space_utils import intersect, is_subspace, space_unique_key

NAMES = ["x", "y", "z"]
class _Net:
    def find_variable(self, k: str) -> Optional[int]:
        return NAMES.index(k) if k in NAMES else None

def _mk(t: Tuple[int, int, int]) -> Dict[str, int]:
    return {NAMES[i]: t[i] for i in range(3) if t[i] >= 0}

def _key_injective(a: Tuple[int, int, int], b: Tuple[int, int, int]) -> bool:
    """
    pre: all(-1 <= v <= 1 for v in a) and all(-1 <= v <= 1 for v in b)
    post: _ == (a == b)
    """
    net = _Net()
    return space_unique_key(_mk(a), net) == space_unique_key(_mk(b), net)

def _intersect_spec(a: Tuple[int, int, int], b: Tuple[int, int, int]) -> bool:
    """
    pre: all(-1 <= v <= 1 for v in a) and all(-1 <= v <= 1 for v in b)
    post: _
    """
    da, db = _mk(a), _mk(b)
    r = intersect(da, db)
    conflict = any(a[i] >= 0 and b[i] >= 0 and a[i] != b[i] for i in range(3))
    if conflict:
        return r is None
    return r is not None and is_subspace(r, da) and is_subspace(r, db) and set(r) == set(da) | set(db)
