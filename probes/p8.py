from biobalm import SuccessionDiagram
r="""
A, B
B, A
C, D
D, C
"""
sd=SuccessionDiagram.from_rules(r)
print("stub seeds", sd.node_attractor_seeds(0,compute=True))
print(sd.skip_to_minimal(0))
print("after skip, cached seeds (no recompute):", sd.node_attractor_seeds(0,compute=False), sd.node_data(0)["skipped"], list(sd.dag.successors(0)))
sd2=SuccessionDiagram.from_rules(r)
sd2.node_attractor_seeds(0,compute=True); sd2.skip_remaining()
print("skip_remaining:", sd2.node_attractor_seeds(0,compute=False))
sd3=SuccessionDiagram.from_rules(r)
sd3.node_attractor_seeds(0,compute=True); sd3.expand_scc()
print("scc:", sd3.node_attractor_seeds(0,compute=False), sd3.node_data(0)["attractor_candidates"])
sd4=SuccessionDiagram.from_rules(r)
sd4.expand_bfs(size_limit=1); 
for i in sd4.stub_ids(): sd4.node_attractor_seeds(i,compute=True)
sd4.expand_minimal_spaces(skip_ignored=True)
for i in sd4.node_ids(): print(i, sd4.node_data(i)["space"], sd4.node_data(i)["expanded"], sd4.node_data(i)["skipped"], sd4.node_data(i)["attractor_seeds"])
