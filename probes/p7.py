import sys
sys.path.insert(0,'/tmp/probe')
from ref import *
from biobalm import SuccessionDiagram
rules="""A, (!A & B & C) | (A & !B & C) | (A & B & !C)
B, (!A&!B&C) | (!A&B&C) | (A&!B&!C) | (A&!B&C) | (A&B&C)
C, (!A&!B&!C) | (!A&B&!C) | (!A&B&C) | (A&B&!C)"""
cfg=SuccessionDiagram.default_config(); cfg["debug"]=True
sd=SuccessionDiagram.from_rules(rules,config=cfg)
sd.expand_bfs()
print(sd.expanded_attractor_seeds())
import itertools
names=["A","B","C"]
from biodivine_aeon import BooleanNetwork, AsynchronousGraph, Attractors
g=AsynchronousGraph(sd.network)
for a in Attractors.attractors(g): print(a, [dict((sd.network.get_variable_name(k),int(v)) for k,v in x.items()) for x in a.vertices().items()])
