import biobalm
from biobalm import SuccessionDiagram
# Probe 1: block expansion leaves stubs; build computes seeds for stubs -> summary duplicates?
sd = SuccessionDiagram.from_rules("""
A, B
B, A
C, D
D, C
""")
sd.build()
print(sd.summary())
print("expanded", list(sd.expanded_ids()), "stubs", list(sd.stub_ids()))
for i in sd.node_ids():
    print(i, sd.node_data(i)["space"], sd.node_data(i)["expanded"], sd.node_data(i)["attractor_seeds"])
