"""Probe: coarse E-CAB at attractor-candidate level. Root node, expanded (children known) or unexpanded,
real compute_attractor_candidates (simulation off), observations: PERC, MAXTRAP, REG(concretised), majority votes, RFP sets.
Assertion (C08): candidates cover every attractor of the node not inside a child motif."""
import itertools, sys, time
import z3
import biobalm, biobalm.succession_diagram as SDM
import biobalm._sd_attractors.attractor_candidates as AC
from biobalm import SuccessionDiagram
from biobalm.trappist_core import trappist as real_trappist, compute_fixed_point_reduced_STG as real_rfp
from biobalm.space_utils import percolate_space as real_percolate
from biobalm.interaction_graph_utils import feedback_vertex_set as real_fvs
from biobalm.petri_net_translation import extract_source_variables

n = int(sys.argv[1]); MAXC = int(sys.argv[2]); EXPAND = sys.argv[3]=="exp"; TIMEBOX=float(sys.argv[4]) if len(sys.argv)>4 else 1e9
names=[chr(97+i) for i in range(n)]
states=list(itertools.product((0,1),repeat=n)); subspaces=list(itertools.product((0,1,None),repeat=n))
F={v:{x:z3.Bool(f"F_{v}_{''.join(map(str,x))}") for x in states} for v in range(n)}
def sp2t(sp): return tuple(sp.get(nm) for nm in names)
def inS(x,S): return all(s is None or s==xi for xi,s in zip(x,S))
def refines(M,S): return all(s is None or s==m for m,s in zip(M,S))
def lit(v,x,b): return F[v][x] if b else z3.Not(F[v][x])
def flip(x,v): y=list(x); y[v]=1-y[v]; return tuple(y)
solver=z3.Solver()
C={}
for v in range(n):
    for b in (0,1):
        for S in subspaces:
            a=z3.Bool(f"C_{v}_{b}_{S}"); solver.add(a==z3.And([lit(v,x,b) for x in states if inS(x,S)])); C[v,b,S]=a
TRAP={}
for S in subspaces:
    a=z3.Bool(f"T_{S}"); solver.add(a==z3.And([C[v,S[v],S] for v in range(n) if S[v] is not None])); TRAP[S]=a
def spec_max(S,srcs):
    cands=[M for M in subspaces if refines(M,S) and M!=S and all(M[names.index(s)] is not None for s in srcs)]
    return {M: z3.And(TRAP[M],*[z3.Not(TRAP[M2]) for M2 in cands if M2!=M and refines(M,M2)]) for M in cands}
def spec_perc_eq(S,R):
    closed=z3.And([z3.Not(C[v,b,R]) for v in range(n) if R[v] is None for b in (0,1)])
    new=[v for v in range(n) if S[v] is None and R[v] is not None]; alts=[]
    for perm in itertools.permutations(new):
        cur=list(S); cs=[]
        for v in perm: cs.append(C[v,R[v],tuple(cur)]); cur[v]=R[v]
        alts.append(z3.And(cs) if cs else z3.BoolVal(True))
    return z3.And(closed,z3.Or(alts))
# REACH atoms
R={x:{y:z3.BoolVal(x==y) for y in states} for x in states}
for x in states:
    for v in range(n): R[x][flip(x,v)]=F[v][x]!=bool(x[v])
k=1
while k<len(states):
    R={x:{y:z3.Or([z3.And(R[x][z],R[z][y]) for z in states]) for y in states} for x in states}; k*=2
RA={x:{y:z3.Bool(f"R_{x}_{y}") for y in states} for x in states}
for x in states:
    for y in states: solver.add(RA[x][y]==R[x][y])
ATTR={x:z3.And([z3.Implies(RA[x][y],RA[y][x]) for y in states]) for x in states}
def reg_flags(u,v,S):
    """(pos_witness, neg_witness) formulas: exists x in S with f_v rising / falling when u goes 0->1"""
    pos=[];neg=[]
    for x in states:
        if inS(x,S) and x[u]==0:
            y=flip(x,u)
            if inS(y,S):
                pos.append(z3.And(z3.Not(F[v][x]),F[v][y])); neg.append(z3.And(F[v][x],z3.Not(F[v][y])))
    return z3.Or(pos) if pos else z3.BoolVal(False), z3.Or(neg) if neg else z3.BoolVal(False)
def model_to_rules(m):
    lines=[]
    for v in range(n):
        terms=["("+" & ".join((names[j] if x[j] else "!"+names[j]) for j in range(n))+")" for x in states if z3.is_true(m.eval(F[v][x],model_completion=True))]
        f=" | ".join(terms) if terms else "false"
        if len(terms)==len(states): f="true"
        lines.append(f"{names[v]}, {f}")
    return "\n".join(lines)
pc=[]; CUR={"m":None,"space":None}
def ev(e): return z3.is_true(CUR["m"].eval(e,model_completion=True))
def obs(e):
    b=ev(e); pc.append(e if b else z3.Not(e)); return b
def w_trappist(network, problem="min", reverse_time=False, solution_limit=None, ensure_subspace=None, avoid_subspaces=None, optimize_source_variables=None):
    r=real_trappist(network,problem=problem,reverse_time=reverse_time,solution_limit=solution_limit,ensure_subspace=ensure_subspace,avoid_subspaces=avoid_subspaces,optimize_source_variables=optimize_source_variables)
    S=sp2t(ensure_subspace or {}); res=frozenset(sp2t(x) for x in r)
    for M,fm in spec_max(S,tuple(optimize_source_variables or ())).items(): pc.append(fm if M in res else z3.Not(fm))
    return sorted(r,key=lambda d: sorted(d.items()))
def w_perc(network,space):
    r=real_percolate(network,space); pc.append(spec_perc_eq(sp2t(space),sp2t(r))); return r
def w_fvs(network,parity=None,subgraph=None):
    r=real_fvs(network,parity,subgraph)
    S=CUR["space"]; free=[v for v in range(n) if S[v] is None]
    for u in free:
        for v in free:
            p,q=reg_flags(u,v,S); obs(p); obs(q)     # concretise signed regulatory graph of the percolated network
    return r
def w_rfp(petri_net, retained_set={}, ensure_subspace={}, avoid_subspaces=[], solution_limit=None):
    r=real_rfp(petri_net,retained_set,ensure_subspace=ensure_subspace,avoid_subspaces=avoid_subspaces,solution_limit=solution_limit)
    S=CUR["space"]; ret={names.index(k):v for k,v in retained_set.items()}
    got={tuple(S[i] if S[i] is not None else d[names[i]] for i in range(n)) for d in r}
    spec={}
    for y in states:
        if not inS(y,S): continue
        if any(all(y[names.index(k)]==v for k,v in a.items()) for a in avoid_subspaces): continue
        cs=[]
        for v in range(n):
            if S[v] is not None: continue
            if v in ret and y[v]==ret[v]: continue          # moves away from retained value are removed
            cs.append(F[v][y]==bool(y[v]))
        spec[y]=z3.And(cs) if cs else z3.BoolVal(True)
    if solution_limit is None or len(r)<solution_limit:
        for y,f in spec.items(): pc.append(f if y in got else z3.Not(f))
    else:
        for y in got: pc.append(spec[y])
        pc.append(z3.PbGe([(f,1) for f in spec.values()], solution_limit))
    return sorted(r,key=lambda d: sorted(d.items()))
def w_retained(graph,nfvs,avoid_dnf):
    r=AC_real_retained(graph,nfvs,avoid_dnf)
    S=CUR["space"]
    # concretise majority votes for every nfvs variable (superset of what is needed)
    for nm in nfvs:
        v=names.index(nm); pts=[x for x in states if inS(x,S)]
        obs(z3.PbGe([(F[v][x],1) for x in pts], len(pts)//2+1))
    return r
AC_real_retained=AC.make_heuristic_retained_set
SDM.trappist=w_trappist; SDM.percolate_space=w_perc; SDM.feedback_vertex_set=w_fvs
AC.compute_fixed_point_reduced_STG=w_rfp; AC.make_heuristic_retained_set=w_retained
t0=time.time(); classes=0; viol=0
while classes<MAXC and time.time()-t0<TIMEBOX:
    if solver.check()!=z3.sat: break
    m=solver.model(); CUR["m"]=m; pc.clear()
    rules=model_to_rules(m)
    sd=SuccessionDiagram.from_rules(rules)
    srcs=set(extract_source_variables(sd.petri_net))
    for v in range(n):
        issrc=z3.And([F[v][x]==bool(x[v]) for x in states]); pc.append(issrc if names[v] in srcs else z3.Not(issrc))
    if EXPAND: sd.node_successors(0,compute=True)
    CUR["space"]=sp2t(sd.node_data(0)["space"])
    try:
        cands=sd.node_attractor_candidates(0,compute=True,simulation_minification=False)
    except AssertionError as e:
        cands=None
    PC=z3.And(pc)
    S=CUR["space"]
    motifs=[sd.edge_stable_motif(0,c) for c in sd.dag.successors(0)] if EXPAND else []
    def in_motif(x): return any(all(x[names.index(k)]==v for k,v in mo.items()) for mo in motifs)
    if cands is None: A=z3.BoolVal(False)
    else:
        cs=[tuple(c[nm] for nm in names) for c in cands]
        A=z3.And([z3.Implies(ATTR[x], z3.Or([z3.And(RA[x][c],RA[c][x]) for c in cs]) if cs else z3.BoolVal(False)) for x in states if inS(x,S) and not in_motif(x)])
    solver.push(); solver.add(PC,z3.Not(A)); r=solver.check()
    if r==z3.sat:
        viol+=1
        if viol<=2:
            print("VIOLATING CLASS; representative:\n"+rules+"\ncandidates",cands,"\ncounterexample network:\n"+model_to_rules(solver.model()),flush=True)
    solver.pop()
    solver.push(); solver.add(PC); solver.add([F[v][x]==m.eval(F[v][x],model_completion=True) for v in range(n) for x in states])
    assert solver.check()==z3.sat, ("spec mismatch on representative",rules)
    solver.pop()
    solver.add(z3.Not(PC)); classes+=1
print(f"n={n} expanded={EXPAND} classes={classes} violating_classes={viol} time={time.time()-t0:.1f}s exhausted={solver.check()==z3.unsat if classes<MAXC and time.time()-t0<TIMEBOX else 'not run to exhaustion'}")
