"""Prototype: lift real _create_clingo_constraints over the generic Petri net; decide siphon<->trap-space
equivalence for ALL networks with n variables and ALL implicant covers, by z3."""
import itertools, sys, time, re
import z3, networkx as nx
import biobalm.trappist_core as TC
n=int(sys.argv[1]) if len(sys.argv)>1 else 3
names=[chr(97+i) for i in range(n)]
states=list(itertools.product((0,1),repeat=n))
subspaces=list(itertools.product((0,1,None),repeat=n))
def inS(x,S): return all(s is None or s==xi for xi,s in zip(x,S))

class Rec:
    def __init__(self,args): self.args=args; self.rules=[]
    def add(self,*a): self.rules.append(a[-1])
def emit(pn, **kw):
    TC.Control=Rec
    ctl=TC._create_clingo_constraints(sorted(names), pn, **kw)
    return ctl.args, ctl.rules

def base_net():
    g=nx.DiGraph()
    for v in names:
        g.add_node(f"b1_{v}",kind="place"); g.add_node(f"b0_{v}",kind="place")
    return g
def add_tr(g,v,up,imp,tid):
    # imp: dict other var->0/1
    t=f"tr_{v}_{'up' if up else 'down'}_{tid}"
    g.add_node(t,kind="transition",change=v,direction="up" if up else "down")
    src,dst=(f"b0_{v}",f"b1_{v}") if up else (f"b1_{v}",f"b0_{v}")
    g.add_edge(src,t); g.add_edge(t,dst)
    for u,val in imp.items():
        p=f"b{val}_{u}"; g.add_edge(p,t); g.add_edge(t,p)
    return t
# all transition shapes
shapes=[]
for vi,v in enumerate(names):
    others=[u for u in names if u!=v]
    for up in (True,False):
        for vals in itertools.product((0,1,None),repeat=len(others)):
            imp={u:b for u,b in zip(others,vals) if b is not None}
            shapes.append((v,up,imp))
print("shapes",len(shapes))

def parse(rule):
    rule=rule.strip().rstrip('.')
    if rule.startswith('{'): return ('choice',rule[1:-1])
    if ':-' in rule:
        h,b=rule.split(':-'); heads=[x.strip() for x in h.split(';') if x.strip()]; body=[x.strip() for x in b.split(',') if x.strip()]
        return ('rule',heads,body)
    return ('rule',[x.strip() for x in rule.split(';')],[])

F={v:{x:z3.Bool(f"F_{v}_{x}") for x in states} for v in names}
P={i:z3.Bool(f"p_{i}") for i in range(len(shapes))}
A={f"b{b}_{v}":z3.Bool(f"A_b{b}_{v}") for v in names for b in (0,1)}
def enabled(sh,x):
    v,up,imp=sh; vi=names.index(v)
    return (x[vi]==(0 if up else 1)) and all(x[names.index(u)]==b for u,b in imp.items())
cover=[]
for vi,v in enumerate(names):
    for x in states:
        for up in (True,False):
            lhs=z3.Or([P[i] for i,sh in enumerate(shapes) if sh[0]==v and sh[1]==up and enabled(sh,x)])
            want = (F[v][x] if up else z3.Not(F[v][x])) if x[vi]==(0 if up else 1) else z3.BoolVal(False)
            cover.append(lhs==want)
COVER=z3.And(cover)

def clauses(rules):
    cs=[]; chosen=set()
    for r in rules:
        p=parse(r)
        if p[0]=='choice': chosen.add(p[1]); continue
        _,heads,body=p
        cs.append(z3.Or([A[h] for h in heads]+[z3.Not(A[b]) for b in body]))
    return cs,chosen

def spec(problem,reverse,ensure,srcs):
    # A -> space: atom b1_v true => v fixed to 0 ; b0_v true => fixed 1  (siphon polarity)
    conj=[]
    for v in names: conj.append(z3.Not(z3.And(A[f"b1_{v}"],A[f"b0_{v}"])))
    def fixed(v,b): return A[f"b1_{v}"] if b==0 else A[f"b0_{v}"]
    def memb(x): return z3.And([z3.Implies(fixed(v,b), x[i]==b) for i,v in enumerate(names) for b in (0,1)])
    # trap: forall x in space, forall v fixed to b: f_v(x)==b   (reverse: time-reversed network: predecessor closed)
    for i,v in enumerate(names):
        for b in (0,1):
            for x in states:
                if not reverse:
                    conj.append(z3.Implies(z3.And(fixed(v,b),memb(x)), F[v][x]==bool(b)))
                else:
                    # reversed: no transition INTO the space from outside: for y outside differing in v... state y=x with v flipped to 1-b, if y can move v to b then y->x enters. 
                    y=list(x); y[i]=1-b; y=tuple(y)
                    if x[i]==b:
                        conj.append(z3.Implies(z3.And(fixed(v,b),memb(x)), F[v][y]==bool(1-b)))
    for v,b in ensure.items(): conj.append(fixed(v,b))
    if problem=="fix":
        for v in names: conj.append(z3.Or(A[f"b1_{v}"],A[f"b0_{v}"]))
    if problem=="max":
        free=[v for v in names if v not in ensure]
        if free:
            conj.append(z3.Or([A[f"b{b}_{v}"] for v in free for b in (0,1)]))
            for v in srcs:
                if v not in ensure: conj.append(z3.Or(A[f"b1_{v}"],A[f"b0_{v}"]))
    return z3.And(conj)

t0=time.time(); q=0
# rules of base net and per-shape rules (locality), for each configuration
for problem in ("min","max","fix"):
  for reverse in (False,True):
    for ens in subspaces:
        ensure={names[i]:ens[i] for i in range(n) if ens[i] is not None}
        srcs=[names[0]] if problem=="max" else []
        args0,R0=emit(base_net(),problem=problem,reverse_time=reverse,ensure_subspace=ensure,avoid_subspaces=[],optimize_source_variables=srcs)
        base_cs,chosen=clauses(R0)
        assert chosen==set(A), chosen
        prog=list(base_cs)
        for i,sh in enumerate(shapes):
            g=base_net(); add_tr(g,*sh,1)
            _,Ri=emit(g,problem=problem,reverse_time=reverse,ensure_subspace=ensure,avoid_subspaces=[],optimize_source_variables=srcs)
            extra=list(Ri)
            for r in R0: extra.remove(r)
            cs,_=clauses(extra)
            prog += [z3.Implies(P[i],c) for c in cs]
        s=z3.Solver(); s.add(COVER); s.add(z3.Xor(z3.And(prog), spec(problem,reverse,ensure,srcs)))
        r=s.check(); q+=1
        if r!=z3.unsat:
            print("CEX",problem,reverse,ensure,r)
            m=s.model(); print({k:m.eval(a) for k,a in A.items()}); sys.exit(1)
print("queries",q,"all unsat; time",time.time()-t0)
