import itertools, random
def rand_rules(n, rng, p=None):
    names=[chr(65+i) for i in range(n)]
    lines=[]; tts=[]
    for v in range(n):
        k = rng.choice([1,2,2,3,n]) ; k=min(k,n)
        deps = sorted(rng.sample(range(n),k))
        sub = {x: rng.random()<0.5 for x in itertools.product((0,1),repeat=k)}
        tt = {x: sub[tuple(x[d] for d in deps)] for x in itertools.product((0,1),repeat=n)}
        tts.append(tt)
        terms=["("+" & ".join((names[j] if x[j] else "!"+names[j]) for j in range(n))+")" for x,b in tt.items() if b]
        f=" | ".join(terms) if terms else "false"
        if len(terms)==2**n: f="true"
        lines.append(f"{names[v]}, {f}")
    return names,"\n".join(lines),tts
def stg(n,tts):
    succ={}
    for x in itertools.product((0,1),repeat=n):
        s=[]
        for v in range(n):
            if tts[v][x]!=bool(x[v]):
                y=list(x); y[v]=1-x[v]; s.append(tuple(y))
        succ[x]=s
    return succ
def reach(succ,x):
    seen={x}; st=[x]
    while st:
        a=st.pop()
        for b in succ[a]:
            if b not in seen: seen.add(b); st.append(b)
    return seen
def attractors(n,tts):
    succ=stg(n,tts); R={x:reach(succ,x) for x in succ}
    atts=set()
    for x in succ:
        if all(x in R[y] for y in R[x]): atts.add(frozenset(R[x]))
    return atts
def trap_spaces(n,tts):
    res=[]
    for S in itertools.product((0,1,None),repeat=n):
        ok=True
        for x in itertools.product((0,1),repeat=n):
            if all(s is None or s==xi for xi,s in zip(x,S)):
                for v in range(n):
                    if S[v] is not None and tts[v][x]!=bool(S[v]): ok=False
        if ok: res.append(S)
    return res
def sub(M,S): return all(s is None or s==m for m,s in zip(M,S))
def min_traps(n,tts):
    T=trap_spaces(n,tts)
    return [M for M in T if not any(M2!=M and sub(M2,M) for M2 in T)]
