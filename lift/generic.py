"""E-LIFT helpers: the generic Petri net G_n (all places, one transition per variable x direction x implicant
shape), capture of the ASP text the real code emits (recording stand-in for clingo.Control inside this process),
a parser for the emitted rule fragment, and the COVER relation tying presence Booleans to a symbolic network."""
from __future__ import annotations
import itertools
import re
import networkx as nx
import z3

NAMES = "abcdefgh"


class Recorder:
    """stands in for clingo.Control: records constructor arguments and program text"""
    last = None

    def __init__(self, args=None, *a, **k):
        self.args = list(args or [])
        self.rules = []
        Recorder.last = self

    def add(self, *a):
        # Control.add(program_text)  or  Control.add(name, params, program_text)
        self.rules.append(a[-1])

    def ground(self, *a, **k):
        raise RuntimeError("Recorder.ground called: capture only")


def base_net(names):
    g = nx.DiGraph()
    for v in names:
        g.add_node(f"b1_{v}", kind="place")
        g.add_node(f"b0_{v}", kind="place")
    return g


def add_tr(g, v, up, imp, tid):
    t = f"tr_{v}_{'up' if up else 'down'}_{tid}"
    g.add_node(t, kind="transition", change=v, direction="up" if up else "down")
    src, dst = (f"b0_{v}", f"b1_{v}") if up else (f"b1_{v}", f"b0_{v}")
    g.add_edge(src, t)
    g.add_edge(t, dst)
    for u, val in imp.items():
        p = f"b{val}_{u}"
        g.add_edge(p, t)
        g.add_edge(t, p)
    return t


def shapes(names):
    out = []
    for v in names:
        others = [u for u in names if u != v]
        for up in (True, False):
            for vals in itertools.product((0, 1, None), repeat=len(others)):
                out.append((v, up, {u: b for u, b in zip(others, vals) if b is not None}))
    return out


def enabled(names, sh, x):
    v, up, imp = sh
    vi = names.index(v)
    return x[vi] == (0 if up else 1) and all(x[names.index(u)] == b for u, b in imp.items())


ATOM = r"[a-z][A-Za-z0-9_]*"


def parse_rule(rule):
    """-> ('choice', atom) | ('clause', heads, body) | ('false',)   (anything else raises: unmodelled)"""
    r = rule.strip()
    if not r.endswith("."):
        raise ValueError("unmodelled rule: " + rule)
    r = r[:-1].strip()
    if r == "#false":
        return ("false",)
    m = re.fullmatch(r"\{\s*(" + ATOM + r")\s*\}", r)
    if m:
        return ("choice", m.group(1))
    if ":-" in r:
        h, b = r.split(":-", 1)
    else:
        h, b = r, ""
    heads = [x.strip() for x in h.split(";") if x.strip()]
    # in a clingo rule body ';' separates body literals just like ',' (conjunction)
    body = [x.strip() for x in re.split(r"[,;]", b) if x.strip()]
    for a in heads + body:
        if not re.fullmatch(ATOM, a):
            raise ValueError("unmodelled rule: " + rule)
    return ("clause", heads, body)


def clauses_of(rules, A):
    """classical clauses (z3) of the non-choice rules; returns (clauses, chosen atoms, facts)"""
    cs, chosen, facts = [], set(), set()
    for r in rules:
        p = parse_rule(r)
        if p[0] == "choice":
            chosen.add(p[1])
            continue
        if p[0] == "false":
            cs.append(z3.BoolVal(False))
            continue
        _, heads, body = p
        for a in heads + body:
            if a not in A:
                raise ValueError("unknown atom " + a)
        if len(heads) == 1 and not body:
            facts.add(heads[0])
        cs.append(z3.Or([A[h] for h in heads] + [z3.Not(A[b]) for b in body]))
    return cs, chosen, facts


def multiset_minus(big, small):
    out = list(big)
    for r in small:
        out.remove(r)
    return out


class FakeSymbol:
    def __init__(self, s):
        self.s = s

    def __str__(self):
        return self.s


class FakeModel:
    def __init__(self, atoms):
        self.atoms = atoms

    def symbols(self, atoms=True, **k):
        return [FakeSymbol(a) for a in self.atoms]
