"""The properties' assertions, written once against an abstract semantics backend B:
SymNet (z3 formulas, decided for a whole class) or ConcreteNet (bools, used by the replay judge).
Every function returns a list of (label, formula) parts; the assertion is their conjunction."""
from __future__ import annotations
from .symnet import refines, in_space, meet

def _cache_of(B):
    """per-backend memo, stored ON the backend object (an id()-keyed global table would hand a dead backend's entries
    to a new object that happens to get the same address)"""
    d = B.__dict__.get("_specs_cache")
    if d is None:
        d = B.__dict__["_specs_cache"] = {}
    return d


def _c(B, key, f):
    d = _cache_of(B)
    if key not in d:
        d[key] = f()
    return d[key]


def clear_cache(B=None):
    if B is not None:
        B.__dict__.pop("_specs_cache", None)


def E(B):
    return (None,) * B.n


def free_vars(S):
    return [i for i, s in enumerate(S) if s is None]


def src_ok(B, M):
    """every source variable (identity update function) is fixed in M"""
    return _c(B, ("srcok", M), lambda: B.And([B.Not(B.is_source(v, E(B))) for v in range(B.n) if M[v] is None]))


def inner_candidates(B, S):
    return [M for M in B.subspaces if refines(M, S) and M != S]


def is_motif(B, S, M, root):
    """M is a stable motif of the node with space S: an inclusion-maximal trap space strictly inside S
    (at the root: among those fixing every source variable)"""
    def build():
        def ok(X):
            return B.And(B.trap(X), src_ok(B, X)) if root else B.trap(X)
        bigger = [M2 for M2 in inner_candidates(B, S) if M2 != M and refines(M, M2)]
        return B.And([ok(M)] + [B.Not(ok(M2)) for M2 in bigger])
    return _c(B, ("motif", S, M, root), build)


def is_mintrap(B, M, inside=None):
    if hasattr(B, "comps"):
        return _c(B, ("mintrap", M), lambda: B.is_mintrap(M))

    def build():
        smaller = [M2 for M2 in B.subspaces if M2 != M and refines(M2, M)]
        return B.And([B.trap(M)] + [B.Not(B.trap(M2)) for M2 in smaller])
    return _c(B, ("mintrap", M), build)


def node_by_id(dump):
    return {n["id"]: n for n in dump["nodes"]}


def out_edges(dump):
    out = {n["id"]: [] for n in dump["nodes"]}
    for e in dump["edges"]:
        out.setdefault(e["p"], []).append(e)
    return out


def structural_sanity(B, dump):
    """class-constant bookkeeping facts (C04/C20): contiguous ids, index consistent, no duplicate space"""
    parts = []
    ids = [n["id"] for n in dump["nodes"]]
    parts.append(("ids contiguous from 0", B.const(ids == list(range(len(ids))) and dump["len"] == len(ids) and dump["dag_nodes"] == ids)))
    spaces = [n["space"] for n in dump["nodes"]]
    parts.append(("no trap space appears as two nodes", B.const(len(set(spaces)) == len(spaces))))
    parts.append(("index has one entry per node", B.const(sorted(v for _, v in dump["index"]) == ids)))
    parts.append(("node_indices = {space_unique_key(space, network): id} for all nodes", B.const(dump.get("index_consistent", True) is True)))
    return parts


def expanded_node_spec(B, dump, nid, root_id=0, source_opt=True):
    """an expanded ordinary node has exactly the percolated stable motifs as successors, with exact motif lists"""
    nodes = node_by_id(dump)
    S = nodes[nid]["space"]
    edges = out_edges(dump)[nid]
    ckey = ("ens", nid, S, nid == root_id, source_opt, tuple((e["c"], nodes[e["c"]]["space"], e["motif"], tuple(e["all_motifs"])) for e in edges))
    d = _cache_of(B)
    if ckey in d:
        return d[ckey]
    parts = d[ckey] = []
    motif_child = {}
    ok = True
    for e in edges:
        if not e["all_motifs"] or e["motif"] not in e["all_motifs"]:
            ok = False
        for m in e["all_motifs"]:
            if m in motif_child:
                ok = False
            motif_child[m] = nodes[e["c"]]["space"]
    parts.append((f"node {nid}: motif lists well-formed (non-empty, no motif twice)", B.const(ok)))
    root = (nid == root_id) and source_opt
    for M in inner_candidates(B, S):
        if M in motif_child:
            parts.append((f"node {nid}: listed motif {B.sstr(M)} is a stable motif percolating to its child",
                          B.And(is_motif(B, S, M, root), B.perc_eq(M, motif_child[M]))))
        else:
            parts.append((f"node {nid}: {B.sstr(M)} not listed, so not a stable motif", B.Not(is_motif(B, S, M, root))))
    for m in motif_child:
        if not (refines(m, S) and m != S):
            parts.append((f"node {nid}: listed motif {B.sstr(m)} is not strictly inside the node", B.const(False)))
    return parts


def node_space_spec(B, dump, nid):
    S = node_by_id(dump)[nid]["space"]
    return [(f"node {nid}: space {B.sstr(S)} is a trap space", B.trap(S)),
            (f"node {nid}: space {B.sstr(S)} is closed under percolation", B.perc_eq(S, S))]


def skip_node_spec(B, dump, nid):
    """a skip node's successors are exactly the minimal trap spaces inside it"""
    nodes = node_by_id(dump)
    S = nodes[nid]["space"]
    kids = {nodes[e["c"]]["space"] for e in out_edges(dump)[nid]}
    parts = []
    for M in B.subspaces:
        if refines(M, S) and M != S:
            f = is_mintrap(B, M)
            parts.append((f"skip node {nid}: child {B.sstr(M)} iff minimal trap space", f if M in kids else B.Not(f)))
    for k in kids:
        if not (refines(k, S) and k != S):
            parts.append((f"skip node {nid}: child {B.sstr(k)} not strictly inside", B.const(False)))
    return parts


def partial_diagram_spec(B, dump, source_opt=True, allow_skip=False):
    """C04 invariant: faithful part of the full diagram"""
    parts = structural_sanity(B, dump)
    nodes = node_by_id(dump)
    oe = out_edges(dump)
    root = nodes[0]["space"]
    parts.append(("root is the percolation of the whole space", B.perc_eq(E(B), root)))
    for nid, nd in nodes.items():
        parts += node_space_spec(B, dump, nid)
        if not nd["expanded"]:
            parts.append((f"unexpanded node {nid} has no successors", B.const(len(oe[nid]) == 0)))
        elif nd["skipped"]:
            if not allow_skip:
                parts.append((f"node {nid} unexpectedly skipped", B.const(False)))
            else:
                parts += skip_node_spec(B, dump, nid)
        else:
            parts += expanded_node_spec(B, dump, nid, 0, source_opt)
    return parts


def leaves_are_mintraps(B, dump, require_all_expanded=True):
    nodes = node_by_id(dump)
    oe = out_edges(dump)
    parts = []
    if require_all_expanded:
        parts.append(("every node expanded", B.const(all(n["expanded"] for n in nodes.values()))))
    leaves = [n["space"] for n in nodes.values() if n["expanded"] and not oe[n["id"]]]
    parts.append(("no minimal trap space duplicated", B.const(len(set(leaves)) == len(leaves))))
    L = set(leaves)
    for M in B.subspaces:
        f = is_mintrap(B, M)
        parts.append((f"{B.sstr(M)} is a leaf iff it is a minimal trap space", f if M in L else B.Not(f)))
    return parts


def full_diagram_spec(B, dump, source_opt=True):
    """C02"""
    parts = partial_diagram_spec(B, dump, source_opt)
    parts += leaves_are_mintraps(B, dump)
    return parts


LAST_PARTS = {"parts": None}


def conj(B, parts):
    LAST_PARTS["parts"] = parts       # kept so that the explorer can name the parts a class-level counterexample falsifies
    return B.And([f for _, f in parts])


def failing_parts(B, parts):
    """concrete backend: labels of parts that are false"""
    return [lbl for lbl, f in parts if not f]


# ----------------------------------------------------------------------------- attractors
def states_in(B, S):
    return [x for x in B.states if in_space(x, S)]


def in_attractor_of(B, x, s):
    """x and s lie in the same attractor"""
    return B.And(B.attr(x), B.reach(x, s), B.reach(s, x))


def seeds_sound(B, dump, seeds_by_node, exact_nodes=None):
    """every reported seed is a total state inside its node's space, lies in an attractor, and (for ordinary
    expanded nodes) in none of the node's successor spaces"""
    nodes = node_by_id(dump)
    oe = out_edges(dump)
    parts = []
    for nid, seeds in seeds_by_node.items():
        nid = int(nid)
        S = nodes[nid]["space"]
        for s in seeds:
            s = tuple(s)
            total = all(v is not None for v in s)
            parts.append((f"seed {s} of node {nid} is a total state in the node space", B.const(total and in_space(s, S))))
            if not total:
                continue
            parts.append((f"seed {s} of node {nid} lies in an attractor", B.attr(s)))
            if not nodes[nid]["skipped"]:
                kids = [nodes[e["c"]]["space"] for e in oe[nid]]
                parts.append((f"seed {s} of node {nid} is in no successor space", B.const(not any(in_space(s, k) for k in kids))))
        parts.append((f"node {nid}: no seed listed twice", B.const(len(set(map(tuple, seeds))) == len(seeds))))
    return parts


def seeds_cover(B, dump, seeds_by_node, exactly_once=True):
    """every attractor is represented by (exactly / at least) one seed in the whole diagram"""
    allseeds = [tuple(s) for seeds in seeds_by_node.values() for s in seeds if all(v is not None for v in s)]
    parts = []
    for x in B.states:
        hits = [B.And(B.reach(x, s), B.reach(s, x)) for s in allseeds]
        if exactly_once:
            # exactly one seed in x's attractor
            one = B.Or([B.And([h] + [B.Not(h2) for j, h2 in enumerate(hits) if j != i]) for i, h in enumerate(hits)])
            parts.append((f"attractor of {x} has exactly one seed", B.Implies(B.attr(x), one)))
        else:
            parts.append((f"attractor of {x} has a seed", B.Implies(B.attr(x), B.Or(hits))))
    return parts


def candidates_cover(B, dump, nid, cands, excluded=()):
    """C08: candidates are total states in the node space and every attractor of the node that is not inside
    one of its successors (nor inside one of the `excluded` trap spaces, see C08 on skip nodes) contains a candidate"""
    nodes = node_by_id(dump)
    oe = out_edges(dump)
    S = nodes[nid]["space"]
    nd = nodes[nid]
    parts = []
    cs = []
    for c in cands:
        c = tuple(c)
        tot = all(v is not None for v in c) and in_space(c, S)
        parts.append((f"candidate {c} of node {nid} is a total state in the node space", B.const(tot)))
        if tot:
            cs.append(c)
    kids = [nodes[e["c"]]["space"] for e in oe[nid]] + [tuple(e) for e in excluded]
    for x in states_in(B, S):
        if any(in_space(x, k) for k in kids):
            continue
        # the attractor of x is not inside a successor iff x itself is outside (successors are trap spaces)
        parts.append((f"attractor of {x} in node {nid} has a candidate",
                      B.Implies(B.attr(x), B.Or([B.And(B.reach(x, c), B.reach(c, x)) for c in cs]))))
    return parts


def has_motif_avoidant(B):
    """the network has an attractor that is not inside any minimal trap space... (used by C05):
    some attractor state x lies in no minimal trap space"""
    if hasattr(B, "comps"):
        return B.has_motif_avoidant()
    parts = []
    for x in B.states:
        inmin = B.Or([is_mintrap(B, M) for M in B.subspaces if in_space(x, M)])
        parts.append(B.And(B.attr(x), B.Not(inmin)))
    return B.Or(parts)
