"""Operations on a SuccessionDiagram as data (so that the same history can be run under the oracles
by the explorer and on the clean code by the replay judge), and observable dumps."""
from __future__ import annotations
import pickle


def _t(names, d):
    return None if d is None else tuple((int(d[nm]) if nm in d else None) for nm in names)


def _canon_key(names, space):
    k = 0
    for nm in names:
        k = 3 * k + (2 if nm not in space else int(space[nm]))
    return k


def _index_consistent(sd):
    try:
        from biobalm.space_utils import space_unique_key
        want = {space_unique_key(sd.node_data(n)["space"], sd.network): n for n in sd.node_ids()}
        return {int(k): int(v) for k, v in sd.node_indices.items()} == {int(k): int(v) for k, v in want.items()}
    except Exception as e:
        return "error: " + repr(e)[:80]


def dump_sd(sd, names, attractors=True):
    nodes = []
    for i in sd.node_ids():
        nd = sd.node_data(i)
        rec = {"id": i, "space": _t(names, nd["space"]), "expanded": bool(nd["expanded"]),
               "skipped": bool(nd["skipped"]), "depth": int(nd["depth"]), "parent": nd["parent_node"]}
        if attractors:
            for k in ("attractor_candidates", "attractor_seeds"):
                v = nd[k]
                rec[k] = None if v is None else [_t(names, s) for s in v]
            rec["has_sets"] = nd["attractor_sets"] is not None
            if nd["attractor_sets"] is not None:
                pos = [(v, names.index(sd.network.get_variable_name(v))) for v in sd.network.variables()]
                cont = []
                for vs in nd["attractor_sets"]:
                    sts = []
                    for vert in vs.items():
                        d = vert.to_dict()
                        x = [0] * len(names)
                        for v, i in pos:
                            x[i] = int(d[v])
                        sts.append(tuple(x))
                    cont.append(sorted(sts))
                rec["sets_content"] = cont
        nodes.append(rec)
    edges = []
    for (p, c, data) in sd.dag.edges(data=True):
        edges.append({"p": int(p), "c": int(c), "motif": _t(names, data["motif"]),
                      "all_motifs": [_t(names, m) for m in data["all_motifs"]]})
    edges.sort(key=lambda e: (e["p"], e["c"]))
    dagnodes = sorted(int(x) for x in sd.dag.nodes())
    return {"nodes": nodes, "edges": edges, "len": len(sd), "depth": sd.depth(), "dag_nodes": dagnodes,
            # node_indices maps space_unique_key(space, sd.network) -> id; the keys depend on the order of sd.network's
            # variables (which a pickle round trip may legitimately change), so what is recorded is the ids per key in
            # the canonical order of the harness' names, plus whether the table is consistent with sd.network
            "index": sorted((_canon_key(names, sd.node_data(int(v))["space"]), int(v)) for v in sd.node_indices.values()),
            "index_consistent": _index_consistent(sd)}


def guarded(f, *a, **k):
    """run an API call; exceptions are part of the observable behaviour"""
    try:
        return {"ret": f(*a, **k), "exc": None}
    except (RuntimeError, KeyError, AssertionError, ValueError, IndexError, TypeError, AttributeError, StopIteration) as e:
        return {"ret": None, "exc": type(e).__name__, "msg": str(e)[:200]}


def apply_op(sd, op, names):
    """op: dict with key 'op' and parameters (ints may be symbolic SymInt under the explorer).
    Returns (sd, record).  (sd may be replaced: pickle)"""
    k = op["op"]
    g = op.get
    if k == "bfs":
        r = guarded(sd.expand_bfs, g("node"), g("level"), g("size"))
    elif k == "dfs":
        r = guarded(sd.expand_dfs, g("node"), g("stack"), g("size"))
    elif k == "min":
        r = guarded(sd.expand_minimal_spaces, g("node"), g("size"), bool(g("skip", False)))
    elif k == "aseeds":
        r = guarded(sd.expand_attractor_seeds, g("size"))
    elif k == "target":
        r = guarded(sd.expand_to_target, dict(g("target")), g("size"))
    elif k == "control":
        def ctl():
            from biobalm.control import succession_control
            ivs = succession_control(sd, dict(g("target")), strategy="all" if g("all") else "internal", successful_only=False)
            return sorted(repr(iv) for iv in ivs)
        r = guarded(ctl)
    elif k == "block":
        r = guarded(sd.expand_block, bool(g("maa", True)), g("size"), bool(g("optsrc", True)), bool(g("exact", False)))
    elif k == "scc":
        r = guarded(sd.expand_scc, bool(g("maa", True)))
    elif k == "succ":
        r = guarded(lambda: sorted(sd.node_successors(g("node"), compute=True)))
    elif k == "skip":
        r = guarded(sd.skip_to_minimal, g("node"))
    elif k == "skipall":
        r = guarded(lambda: [bool(sd.skip_to_minimal(i)) for i in list(sd.stub_ids())])
    elif k == "skiprem":
        r = guarded(sd.skip_remaining)
    elif k == "cands":
        r = guarded(lambda: [_t(names, s) for s in sd.node_attractor_candidates(
            g("node"), compute=bool(g("compute", True)), greedy_asp_minification=bool(g("greedy", True)),
            simulation_minification=bool(g("sim", True)))])
    elif k == "seeds":
        r = guarded(lambda: [_t(names, s) for s in sd.node_attractor_seeds(g("node"), compute=bool(g("compute", True)),
                                                                            symbolic_fallback=bool(g("fallback", False)))])
    elif k == "sets":
        def sets():
            out = []
            for vs in sd.node_attractor_sets(g("node"), compute=bool(g("compute", True))):
                pos = [(v, names.index(sd.network.get_variable_name(v))) for v in sd.network.variables()]
                states = []
                for vert in vs.items():
                    d = vert.to_dict()
                    x = [0] * len(names)
                    for v, i in pos:
                        x[i] = int(d[v])
                    states.append(tuple(x))
                out.append(sorted(states))
            return out
        r = guarded(sets)
    elif k == "fbseeds":
        r = guarded(lambda: [_t(names, s) for s in sd.node_attractor_seeds(g("node"), compute=True, symbolic_fallback=True)])
    elif k == "allseeds":
        def allseeds():
            return {int(i): [_t(names, s) for s in v] for i, v in sd.expanded_attractor_seeds().items()}
        r = guarded(allseeds)
    elif k == "everyseeds":
        def everyseeds():
            return {int(i): [_t(names, s) for s in sd.node_attractor_seeds(i, compute=True)] for i in list(sd.node_ids())}
        r = guarded(everyseeds)
    elif k == "reclaim":
        r = guarded(sd.reclaim_node_data)
    elif k == "pickle":
        def rt():
            return pickle.loads(pickle.dumps(sd))
        r = guarded(rt)
        if r["exc"] is None:
            sd = r["ret"]
            r["ret"] = True
    elif k == "build":
        r = guarded(sd.build)
    elif k == "summary":
        r = guarded(sd.summary)
    elif k == "selfhang":
        while True:
            pass
    elif k == "nop":
        r = {"ret": None, "exc": None}
    else:
        raise ValueError(k)
    return sd, r


def plain(v):
    """make a value JSON-able and free of symbolic wrappers"""
    from .cab import SymInt
    if isinstance(v, SymInt):
        return int(str(v))
    if isinstance(v, dict):
        return {str(k): plain(x) for k, x in v.items()}
    if isinstance(v, (list, tuple)):
        return [plain(x) for x in v]
    if isinstance(v, (bool, int, str)) or v is None:
        return v
    return repr(v)
