"""Replay of a solver counterexample on the *clean* code: no oracles, no proxies, real clingo and AEON.
The verdict is judged with the explicit-state reference (engine/ref.py).
usage: replay.py <record.json>     prints  REPLAY {"reproduces": bool, "failing": [...], ...}"""
import importlib
import json
import os
import sys

ROOT = os.path.dirname(os.path.dirname(os.path.abspath(__file__)))
sys.path.insert(0, ROOT)


def main():
    rec = json.load(open(sys.argv[1]))
    mod = importlib.import_module("checks." + rec["property"])
    try:
        verdict = mod.replay(rec)
    except Exception as e:  # the replay itself failed: not a reproduction
        import traceback
        verdict = {"reproduces": None, "detail": "replay error: " + repr(e) + traceback.format_exc()[-600:]}
    print("REPLAY " + json.dumps(verdict, default=str))


if __name__ == "__main__":
    main()
