"""Fine mode for biobalm._sd_attractors.attractor_symbolic: vertex-set handles with a symbolic denotation.

Every ColoredVertexSet / VertexSet that the real compute_attractors_symbolic / symbolic_attractor_test
manipulate is a `SymSet`: the real AEON object for the representative *and* one z3 Boolean per state of the
(percolated) network saying whether the state is in the set, as a formula over the symbolic truth table.
Combinators (union, minus, intersect, var_post_out, var_pre_out, transfer_from, r_select) compute both sides;
observations (is_empty, is_false, symbolic_size, items) return the real value and add the matching constraint,
so the Python path of the reachability loop is class-constant and the returned closures have a denotation
that z3 can compare with REACH for the whole class."""
from __future__ import annotations
import itertools
import z3

from .cab import CTX, Unmodelled
from .symnet import fAnd, fOr, fNot, flip, in_space, _ZTRUE, _ZFALSE
from . import oracles
from .oracles import Proxy, GraphProxy, netvars, unwrap, nctx_of

ENABLED = {"on": False, "decline_growth": False}


def ctx_states(nctx):
    """global representatives of the states of the network denoted by nctx (outside variables read as 0)"""
    net = CTX.net
    base = nctx[0]
    nv = netvars(nctx)
    out = []
    for vals in itertools.product((0, 1), repeat=len(nv)):
        x = [0 if b is None else b for b in base]
        for v, b in zip(nv, vals):
            x[v] = b
        out.append(tuple(x))
    return out


class SymSet:
    """dual (real, denotation) vertex set over the network denoted by nctx"""

    def __init__(self, real, nctx, d):
        self.real, self.nctx, self.d = real, nctx, d

    # ---- helpers
    @staticmethod
    def of_real(real, nctx):
        """denotation = the concrete content (for sets built from class-constant data)"""
        content = SymSet.content(real, nctx)
        return SymSet(real, nctx, {x: (_ZTRUE if x in content else _ZFALSE) for x in ctx_states(nctx)})

    @staticmethod
    def content(real, nctx):
        net = CTX.net
        vs = real.vertices() if hasattr(real, "vertices") else real
        nv = netvars(nctx)
        out = set()
        for vert in vs.items():
            dd = vert.to_dict()
            x = [0 if b is None else b for b in nctx[0]]
            # keys are VariableIds of the (reduced) network in its own order = sorted names of the network's variables
            for k, val in dd.items():
                x[SymSet._var_index(k, nctx)] = int(val)
            out.add(tuple(x))
        return out

    _idx_cache = {}

    @staticmethod
    def _var_index(varid, nctx):
        # variables of a percolated network keep their names; AEON orders them alphabetically
        net = CTX.net
        nv = netvars(nctx)
        names = sorted(net.names[v] for v in nv)
        return net.names.index(names[int(varid)])

    def _other(self, o):
        if isinstance(o, SymSet):
            return o
        return SymSet.of_real(o, self.nctx)

    def check(self):
        """the denotation evaluated at the representative must equal the real content"""
        content = SymSet.content(self.real, self.nctx)
        for x, f in self.d.items():
            if CTX.ev(f) != (x in content):
                CTX.mismatch.append(("vertex-set denotation", str(x)))
                return

    # ---- combinators
    def union(self, o):
        o = self._other(o)
        return SymSet(self.real.union(o.real), self.nctx, {x: fOr([self.d[x], o.d[x]]) for x in self.d})

    def intersect(self, o):
        o = self._other(o)
        return SymSet(self.real.intersect(o.real), self.nctx, {x: fAnd([self.d[x], o.d[x]]) for x in self.d})

    def minus(self, o):
        o = self._other(o)
        return SymSet(self.real.minus(o.real), self.nctx, {x: fAnd([self.d[x], fNot(o.d[x])]) for x in self.d})

    def vertices(self):
        return SymSet(self.real.vertices(), self.nctx, self.d)

    def to_bdd(self):
        return SymBdd(self.real.to_bdd(), self)

    # ---- observations
    def is_empty(self):
        CTX.steps += 1
        if CTX.step_budget is not None and CTX.steps > CTX.step_budget:
            from .cab import Budget
            raise Budget("step budget")
        return CTX.obs_eq(fNot(fOr(list(self.d.values()))), self.real.is_empty(), "VertexSet.is_empty")

    def is_subset(self, o):
        o = self._other(o)
        return CTX.obs_eq(fAnd([z3.Implies(self.d[x], o.d[x]) for x in self.d]), self.real.is_subset(o.real), "VertexSet.is_subset")

    def symbolic_size(self):
        """A representation-dependent heuristic without a functional contract.  Default resolution ('real'): concretise
        the set (its BDD size is a function of its content) and return the real size.  Decision-point resolutions
        ('decline' / 'accept'): substitute contract-admissible values that make the caller's size comparison
        `avoid.symbolic_size() >= updated.symbolic_size()` always fail / always succeed - no constraint is added, so
        the verdict does not depend on AEON's BDD sizes at all.  A counterexample found under a substituted value is
        reported only if it replays with the real sizes (otherwise: contract-level hazard)."""
        mode = ENABLED.get("size_mode", "real")
        if mode in ("decline", "accept"):
            import sys as _sys
            caller = _sys._getframe(1).f_locals
            is_avoid = caller.get("avoid") is self
            if mode == "decline":
                return 0 if is_avoid else 1
            return 10 ** 9 if is_avoid else 0
        for x, f in self.d.items():
            CTX.obs(f)
        return self.real.symbolic_size()

    def cardinality(self):
        k = self.real.cardinality()
        for x, f in self.d.items():
            CTX.obs(f)
        return k

    def items(self):
        for x, f in self.d.items():
            CTX.obs(f)
        return self.real.items()

    def __str__(self):
        return str(self.real)

    def __getattr__(self, name):
        raise Unmodelled(f"vertex set .{name} is not on the audited list")


class SymBdd:
    def __init__(self, real, owner):
        self.real, self.owner = real, owner

    def r_select(self, sel):
        net = CTX.net
        o = self.owner
        real = self.real.r_select(sel)
        d = dict(o.d)
        bset = self.real.__ctx__()
        for bvar, val in sel.items():
            nm = bset.get_variable_name(bvar)
            i = net.names.index(nm)
            for x in d:
                if x[i] != int(val):
                    d[x] = _ZFALSE
        return SymBdd(real, SymSet(None, o.nctx, d))

    def is_false(self):
        return CTX.obs_eq(fNot(fOr(list(self.owner.d.values()))), self.real.is_false(), "Bdd.is_false")

    def __getattr__(self, name):
        raise Unmodelled(f"Bdd(vertex set).{name} is not on the audited list")


class FineGraph(GraphProxy):
    """AsynchronousGraph of a (percolated) network inside attractor_symbolic"""
    _kind = "AsynchronousGraph(fine)"
    _ALLOW = ("network_variable_names", "symbolic_context", "network_variables", "find_network_variable",
              "get_network_variable_name", "network_variable_count")

    def _nm(self, var):
        real = object.__getattribute__(self, "_real")
        return CTX.net.names.index(var if isinstance(var, str) else real.get_network_variable_name(var))

    def mk_subspace(self, space):
        real = object.__getattribute__(self, "_real")
        nctx = object.__getattribute__(self, "_nctx")
        net = CTX.net
        sp = {net.names.index(k): int(v) for k, v in space.items()}
        d = {x: (_ZTRUE if all(x[i] == b for i, b in sp.items()) else _ZFALSE) for x in ctx_states(nctx)}
        return SymSet(real.mk_subspace(space), nctx, d)

    def mk_empty_colored_vertices(self):
        real = object.__getattribute__(self, "_real")
        nctx = object.__getattribute__(self, "_nctx")
        return SymSet(real.mk_empty_colored_vertices(), nctx, {x: _ZFALSE for x in ctx_states(nctx)})

    def var_post_out(self, var, s):
        real = object.__getattribute__(self, "_real")
        net = CTX.net
        v = self._nm(var)
        d = {}
        for y in s.d:
            x = flip(y, v)
            # x in s, x --v--> y (f_v(x) = y_v != x_v), y not in s
            d[y] = fAnd([fNot(s.d[y]), s.d[x], net.F[v][x] if y[v] else fNot(net.F[v][x])])
        return SymSet(real.var_post_out(var, s.real), s.nctx, d)

    def var_pre_out(self, var, s):
        real = object.__getattribute__(self, "_real")
        net = CTX.net
        v = self._nm(var)
        d = {}
        for x in s.d:
            y = flip(x, v)
            # x not in s, x --v--> y in s
            d[x] = fAnd([fNot(s.d[x]), s.d[y], net.F[v][x] if y[v] else fNot(net.F[v][x])])
        return SymSet(real.var_pre_out(var, s.real), s.nctx, d)


def w_FineAsynchronousGraph(network, *a, **k):
    real = oracles.REAL["AsynchronousGraph"](unwrap(network), *a, **k)
    if not CTX.active or CTX.opaque > 0:
        return real
    return FineGraph(real, nctx_of(network))


def w_ColoredVertexSet(ctx, bdd):
    import biodivine_aeon as ba
    real = ba.ColoredVertexSet(ctx, bdd)
    if not CTX.active or CTX.opaque > 0:
        return real
    if not isinstance(ENABLED.get("cur_nctx"), tuple):
        raise Unmodelled("ColoredVertexSet constructor outside compute_attractors_symbolic")
    return SymSet.of_real(real, ENABLED["cur_nctx"])


def transfer_to_root(sd_symbolic_real, vertices, graph_reduced, root_nctx):
    """sd.symbolic.transfer_from(vertices, graph_reduced): a state of the full network is in the result iff its
    projection on the reduced network's variables is in `vertices`"""
    net = CTX.net
    real = sd_symbolic_real.transfer_from(vertices.real, unwrap(graph_reduced))
    nv = netvars(vertices.nctx)
    base = vertices.nctx[0]
    d = {}
    for x in ctx_states(root_nctx):
        key = tuple((x[i] if i in nv else (0 if base[i] is None else base[i])) for i in range(net.n))
        d[x] = vertices.d[key]
    return SymSet(real, root_nctx, d)


def fine_compute_attractors_symbolic(sd, node_id, candidate_states, seeds_only=False):
    """runs the REAL compute_attractors_symbolic with fine handles; returns (seeds, sets, symsets)"""
    import biobalm._sd_attractors.attractor_symbolic as AS
    nctx_root = nctx_of(sd.network)
    node = sd.node_data(node_id)
    sub = nctx_of(sd.node_percolated_network(node_id, compute=True))
    ENABLED["cur_nctx"] = sub
    saved = (AS.AsynchronousGraph, AS.ColoredVertexSet)
    AS.AsynchronousGraph = w_FineAsynchronousGraph
    AS.ColoredVertexSet = w_ColoredVertexSet
    symbolic = sd.symbolic
    old_transfer = None

    class RootGraph:
        """sd.symbolic as seen by the tail of compute_attractors_symbolic"""

        def mk_subspace(self, space):
            real = unwrap(symbolic).mk_subspace(space)
            return SymSet.of_real(real, nctx_root)

        def transfer_from(self, vertices, other):
            return transfer_to_root(unwrap(symbolic), vertices, other, nctx_root)

    class SDView:
        """the succession diagram with `symbolic` replaced by the fine root graph; everything else is the real object"""

        def __init__(self, sd):
            object.__setattr__(self, "_sd", sd)

        def __getattr__(self, name):
            if name == "symbolic":
                return RootGraph()
            return getattr(object.__getattribute__(self, "_sd"), name)
    try:
        seeds, sets = oracles.REAL["compute_attractors_symbolic"](SDView(sd), node_id, candidate_states, seeds_only)
    finally:
        AS.AsynchronousGraph, AS.ColoredVertexSet = saved
        ENABLED["cur_nctx"] = None
    symsets = sets
    real_sets = None if sets is None else [s.real for s in sets]
    if sets is not None:
        for s in sets:
            s.check()
    return seeds, real_sets, symsets
