"""Explicit-state reference semantics (no z3, no biobalm): same vocabulary as SymNet, but over a
concrete truth table and returning Python bools.  Used (a) to judge replays of solver counterexamples
on the unmodified code, (b) to validate SymNet itself (self-test)."""
from __future__ import annotations
import itertools
import re

NAMES = "abcdefgh"


def in_space(x, S):
    return all(s is None or s == xi for xi, s in zip(x, S))


def refines(M, S):
    return all(s is None or s == m for m, s in zip(M, S))


def flip(x, v):
    y = list(x)
    y[v] = 1 - y[v]
    return tuple(y)


def meet(A, B):
    r = []
    for a, b in zip(A, B):
        if a is None:
            r.append(b)
        elif b is None or a == b:
            r.append(a)
        else:
            return None
    return tuple(r)


def parse_bnet(text):
    """independent mini-parser for the bnet subset the harness emits: '&', '|', '!', parentheses,
    true/false.  Returns (names, tables) with tables[v][i] for the i-th state in product order."""
    lines = [ln for ln in text.strip().splitlines() if ln.strip() and not ln.startswith("#") and not ln.lower().startswith("targets")]
    names = [ln.split(",", 1)[0].strip() for ln in lines]
    exprs = [ln.split(",", 1)[1].strip() for ln in lines]
    n = len(names)
    states = list(itertools.product((0, 1), repeat=n))
    tables = []
    for e in exprs:
        py = re.sub(r"!", " not ", e)
        py = py.replace("&", " and ").replace("|", " or ")
        py = re.sub(r"\btrue\b", "True", py)
        py = re.sub(r"\bfalse\b", "False", py)
        code = compile(py, "<bnet>", "eval")
        tables.append([1 if eval(code, {"__builtins__": {}}, dict(zip(names, map(bool, x)))) else 0 for x in states])
    return names, tables


class ConcreteNet:
    TRUE = True
    FALSE = False

    def __init__(self, names, tables):
        self.names = list(names)
        self.n = len(names)
        self.states = list(itertools.product((0, 1), repeat=self.n))
        self.subspaces = list(itertools.product((0, 1, None), repeat=self.n))
        self.idx = {x: i for i, x in enumerate(self.states)}
        self.tables = tables
        self._dyn_cache = {}

    @classmethod
    def from_bnet(cls, text):
        return cls(*parse_bnet(text))

    # logic combinators with the SymNet signature
    @staticmethod
    def And(*xs):
        xs = xs[0] if len(xs) == 1 and isinstance(xs[0], (list, tuple)) else xs
        return all(xs)

    @staticmethod
    def Or(*xs):
        xs = xs[0] if len(xs) == 1 and isinstance(xs[0], (list, tuple)) else xs
        return any(xs)

    @staticmethod
    def Not(x):
        return not x

    @staticmethod
    def Implies(a, b):
        return (not a) or b

    @staticmethod
    def Iff(a, b):
        return bool(a) == bool(b)

    @staticmethod
    def const(b):
        return bool(b)

    def sstr(self, S):
        return "".join("*" if s is None else str(s) for s in S)

    def space_of(self, d):
        for k in d:
            if k not in self.names:
                raise KeyError(k)
        return tuple(d.get(nm) for nm in self.names)

    def dict_of(self, S):
        return {nm: s for nm, s in zip(self.names, S) if s is not None}

    def state_of(self, d):
        return tuple(int(d[nm]) for nm in self.names)

    def fval(self, v, x):
        return bool(self.tables[v][self.idx[x]])

    def const_on(self, v, b, S):
        return all(self.fval(v, x) == bool(b) for x in self.states if in_space(x, S))

    def trap(self, S):
        c = self._dyn_cache.setdefault("trap", {})
        if S not in c:
            c[S] = all(self.const_on(v, S[v], S) for v in range(self.n) if S[v] is not None)
        return c[S]

    def trap_rel(self, M, base, V=None):
        return all(self.const_on(v, M[v], M) for v in range(self.n)
                   if M[v] is not None and base[v] is None and (V is None or v in V))

    def rtrap(self, M):
        for x in self.states:
            if in_space(x, M):
                for v in range(self.n):
                    if M[v] is not None:
                        y = flip(x, v)
                        if self.fval(v, y) != bool(y[v]):
                            return False
        return True

    def is_source(self, v, S):
        return all(self.fval(v, x) == bool(x[v]) for x in self.states if in_space(x, S))

    def perc(self, S):
        cur = list(S)
        changed = True
        while changed:
            changed = False
            for v in range(self.n):
                if cur[v] is None:
                    for b in (0, 1):
                        if self.const_on(v, b, tuple(cur)):
                            cur[v] = b
                            changed = True
                            break
        return tuple(cur)

    def perc_eq(self, S, R):
        return self.perc(S) == R

    def perc_candidates(self, S):
        return [R for R in self.subspaces if refines(R, S)]

    def trap_candidates(self, base, V=None, ensure=None, srcs=(), avoid=(), strict_free=None):
        B = base if ensure is None else meet(base, ensure)
        if B is None:
            return []
        out = []
        for M in self.subspaces:
            if not refines(M, B):
                continue
            if V is not None and any(M[v] is not None and base[v] is None and v not in V for v in range(self.n)):
                continue
            if any(M[s] is None for s in srcs):
                continue
            if any(refines(M, a) for a in avoid):
                continue
            if strict_free is not None and not any(M[v] is not None for v in strict_free):
                continue
            out.append(M)
        return out

    def trappist_spec(self, problem, base, V=None, ensure=None, srcs=(), avoid=(), reverse=False):
        if reverse:
            saved = self.trap_rel
            self.trap_rel = lambda M, base_, V_=None: self.rtrap(M)
            try:
                return self.trappist_spec(problem, base, V, ensure, srcs, avoid, reverse=False)
            finally:
                self.trap_rel = saved
        netvars = [v for v in range(self.n) if base[v] is None and (V is None or v in V)]
        if problem == "max":
            ens = ensure or (None,) * self.n
            free = [v for v in netvars if ens[v] is None]
            cands = self.trap_candidates(base, V, ensure, srcs if free else (), avoid, strict_free=free if free else None)
            traps = [M for M in cands if self.trap_rel(M, base, V)]
            return {M: (M in traps and not any(M2 != M and refines(M, M2) for M2 in traps)) for M in cands}
        if problem == "min":
            cands = self.trap_candidates(base, V, ensure, (), avoid)
            traps = [M for M in cands if self.trap_rel(M, base, V)]
            return {M: (M in traps and not any(M2 != M and refines(M2, M) for M2 in traps)) for M in cands}
        if problem == "fix":
            cands = [M for M in self.trap_candidates(base, V, ensure, (), avoid) if all(M[v] is not None for v in netvars)]
            return {M: self.trap_rel(M, base, V) for M in cands}
        raise ValueError(problem)

    def max_traps(self, S, srcs=()):
        return self.trappist_spec("max", (None,) * self.n, None, S, tuple(srcs), ())

    def min_traps(self, S=None):
        return self.trappist_spec("min", (None,) * self.n, None, S, (), ())

    def rfp_spec(self, base, V, retained, ensure=None, avoid=()):
        netvars = [v for v in range(self.n) if base[v] is None and (V is None or v in V)]
        out = {}
        ens = ensure or (None,) * self.n
        for vals in itertools.product((0, 1), repeat=len(netvars)):
            y = list(base)
            for v, b in zip(netvars, vals):
                y[v] = b
            y = tuple(y)
            if not refines(y, ens):
                continue
            if any(refines(y, a) for a in avoid):
                continue
            x = tuple(0 if s is None else s for s in y)
            out[y] = all(self.fval(v, x) == bool(x[v]) for v in netvars if not (v in retained and y[v] == retained[v]))
        return out

    def reg(self, u, v, S):
        pos = neg = False
        for x in self.states:
            if in_space(x, S) and x[u] == 0:
                y = flip(x, u)
                if in_space(y, S):
                    if not self.fval(v, x) and self.fval(v, y):
                        pos = True
                    if self.fval(v, x) and not self.fval(v, y):
                        neg = True
        return pos, neg

    # dynamics
    def _dyn(self, override=None):
        override = override or (None,) * self.n
        if override in self._dyn_cache:
            return self._dyn_cache[override]
        succ = {}
        for x in self.states:
            s = []
            for v in range(self.n):
                tgt = override[v] if override[v] is not None else int(self.fval(v, x))
                if tgt != x[v]:
                    s.append(flip(x, v))
            succ[x] = s
        R = {}
        for x in self.states:
            seen = {x}
            st = [x]
            while st:
                a = st.pop()
                for b in succ[a]:
                    if b not in seen:
                        seen.add(b)
                        st.append(b)
            R[x] = seen
        A = {x: all(x in R[y] for y in R[x]) for x in self.states}
        self._dyn_cache[override] = (R, A)
        return R, A

    def reach(self, x, y, override=None):
        return y in self._dyn(override)[0][x]

    def attr(self, x, override=None):
        return self._dyn(override)[1][x]

    def attractors(self, override=None):
        R, A = self._dyn(override)
        return {frozenset(R[x]) for x in self.states if A[x]}

    def take_pending_defs(self):
        return []
