"""E-CAB core: concolic exploration of the real biobalm Python over a symbolic network.

One *class* = all (network, history) values that make the real code take the same Python path with the
same Python values; it is described by the path condition PC collected at the observation points
(engine/oracles.py).  For every class z3 decides PC ∧ ¬Assert; the frontier ¬PC_1 ∧ … ∧ ¬PC_k is
asked for a representative outside all classes seen so far until it is unsat (exhausted) or the
time box expires (partial)."""
from __future__ import annotations
import signal
import time
import traceback
import z3
from .symnet import fAnd, fNot


class Unmodelled(Exception):
    """an information channel that is not on the audited list was used -> INCONCLUSIVE (exit 3)"""


class Budget(BaseException):
    """work budget exceeded (C13)"""


class Ctx:
    """exploration context shared with the oracles (module-level singleton `CTX`)"""

    def __init__(self):
        self.net = None
        self.model = None
        self.pc = []
        self.nobs = 0
        self.seen = set()
        self.mismatch = []     # (region, detail) where real library/function disagreed with its spec on the representative
        self.opaque = 0
        self.hazards = []
        self.log = []
        self.hist = {}
        self.active = False
        self.steps = 0
        self.step_budget = None
        self.decisions = None
        self.symsets = []

    def reset(self, model):
        self.model = model
        self.pc = []
        self.seen = set()
        self.nobs = 0
        self.mismatch = []
        self.opaque = 0
        self.log = []
        self.steps = 0
        self.symsets = []

    def ev(self, e):
        return z3.is_true(self.model.eval(e, model_completion=True))

    def ev_int(self, e):
        return self.model.eval(e, model_completion=True).as_long()

    def obs(self, e):
        """observation whose concrete value is *derived from the denotation*: consistent by construction"""
        k = e.get_id()
        if k in self.seen:
            return self.ev(e)
        self.seen.add(k)
        b = self.ev(e)
        self.pc.append(e if b else fNot(e))
        self.nobs += 1
        return b

    def obs_eq(self, spec, real, region, detail=None):
        """observation of a real library / region answer against its spec formula"""
        real = bool(real)
        k = (spec.get_id(), real)
        if k in self.seen:
            return real
        self.seen.add(k)
        self.pc.append(spec if real else fNot(spec))
        self.nobs += 1
        if self.ev(spec) != real:
            self.mismatch.append((region, detail))
        return real

    def add_pc(self, e, region=None, detail=None):
        """a constraint known to hold by contract (e.g. cardinality); checked on the representative"""
        self.pc.append(e)
        self.nobs += 1
        if not self.ev(e):
            self.mismatch.append((region, detail))


CTX = Ctx()


class SymInt:
    """an integer input (limit, config value, count) that is symbolic for the solver: comparisons return
    the outcome for the representative and add it to the path condition, so one class covers every value
    that steers the run identically."""
    __slots__ = ("e",)

    def __init__(self, e):
        self.e = e if isinstance(e, z3.ExprRef) else z3.IntVal(int(e))

    @staticmethod
    def _e(o):
        return o.e if isinstance(o, SymInt) else z3.IntVal(int(o))

    def _cmp(self, o, f):
        if not isinstance(o, (int, SymInt)) or isinstance(o, bool) and False:
            return NotImplemented
        return CTX.obs(f(self.e, self._e(o)))

    def __ge__(self, o): return self._cmp(o, lambda a, b: a >= b)
    def __gt__(self, o): return self._cmp(o, lambda a, b: a > b)
    def __le__(self, o): return self._cmp(o, lambda a, b: a <= b)
    def __lt__(self, o): return self._cmp(o, lambda a, b: a < b)
    def __eq__(self, o):
        if o is None:
            return False
        return self._cmp(o, lambda a, b: a == b)
    def __ne__(self, o):
        if o is None:
            return True
        return self._cmp(o, lambda a, b: a != b)
    def __hash__(self): return hash(self.concrete())
    def __add__(self, o): return SymInt(self.e + self._e(o))
    __radd__ = __add__
    def __sub__(self, o): return SymInt(self.e - self._e(o))
    def __rsub__(self, o): return SymInt(self._e(o) - self.e)
    def __mul__(self, o): return SymInt(self.e * self._e(o))
    __rmul__ = __mul__
    def __bool__(self): return CTX.obs(self.e != 0)

    def concrete(self):
        """concretise: the value of the representative, pinned in the path condition"""
        v = CTX.ev_int(self.e)
        CTX.pc.append(self.e == v)
        return v

    __index__ = concrete
    __int__ = concrete

    def __reduce__(self):
        # configuration values travel through pickle (C16): a symbolic constant is re-attached by name
        if z3.is_int_value(self.e):
            return (SymInt, (self.e.as_long(),))
        if z3.is_const(self.e):
            return (_symint_named, (str(self.e),))
        return (SymInt, (self.concrete(),))

    def __repr__(self):
        return f"SymInt({CTX.ev_int(self.e) if CTX.model is not None else self.e})"

    def __str__(self):
        return str(CTX.ev_int(self.e))

    def __format__(self, spec):
        return format(CTX.ev_int(self.e), spec)


def _symint_named(name):
    return SymInt(z3.Int(name))


class Result(dict):
    pass


def explore(net, harness, *, extra_vars=(), extra_constraints=(), cube=(), timebox=60.0, max_classes=None,
            seed=0, samples=3, label="", stop_on_violation=False, class_timeout_ms=60000, start_at=None,
            class_wall_s=20.0):
    """Run the concolic exploration.  harness(ctx) -> (assertion_formula, info dict)
    Returns a Result with counts, counterexamples (unreplayed), sample classes."""
    from . import oracles
    ctx = CTX
    ctx.net = net
    ctx.active = True
    s = z3.Solver()
    s.set("random_seed", int(seed) % (2 ** 31))
    s.set("timeout", class_timeout_ms)
    try:
        s.set("phase_selection", 5)   # random phases: spreads the representatives of a time-boxed slice
    except z3.Z3Exception:
        pass
    s.add(net.defs)
    s.add(net.family_constraints)
    s.add(list(extra_constraints))
    s.add(list(cube))
    t0 = time.time()

    def _alarm(signum, frame):
        raise Budget("class budget exceeded")
    try:
        # the budget is CPU time of this process (immune to a loaded machine); a wall-clock backstop of 15x the
        # budget catches a call that blocks without burning CPU
        signal.signal(signal.SIGPROF, _alarm)
        signal.signal(signal.SIGALRM, _alarm)
        have_alarm = True
    except ValueError:
        have_alarm = False
    res = Result(label=label, hangs=[], classes=0, exhausted=False, violations=[], inconclusive=[], observations=0,
                 samples=[], hazards=[], queries={"frontier": 0, "class_unsat": 0, "class_sat": 0, "unknown": 0},
                 z3_s=0.0, real_s=0.0, budget_exceeded=0, errors=[])
    while True:
        if time.time() - t0 > timebox or (max_classes is not None and res["classes"] >= max_classes):
            break
        tq = time.time()
        if start_at is not None and res["classes"] == 0:
            # first representative pinned (re-deciding the class of a given counterexample)
            s.push()
            s.add(net.pin(start_at["tables"]))
            for k in extra_vars:
                if str(k) in start_at.get("hist", {}):
                    s.add(k == start_at["hist"][str(k)])
            r = s.check()
            m0 = s.model() if r == z3.sat else None
            s.pop()
        else:
            r = s.check()
            m0 = None
        res["z3_s"] += time.time() - tq
        res["queries"]["frontier"] += 1
        if r == z3.unsat:
            res["exhausted"] = True
            break
        if r != z3.sat:
            # the SEARCH for the next unexplored class gave up (solver timeout on the accumulated frontier): the
            # exploration of this task ends here, not exhausted.  No verdict depends on this query - every class
            # decided so far stands - so it is the same as running out of the time box, and is counted.
            res["queries"]["frontier_unknown"] = res["queries"].get("frontier_unknown", 0) + 1
            if start_at is not None and res["classes"] == 0:
                res["inconclusive"].append({"reason": "frontier query unknown for a pinned representative"})
            break
        m = m0 if m0 is not None else s.model()
        ctx.reset(m)
        rules = net.rules_of_model(m)
        hist = {str(k): (m.eval(k, model_completion=True).as_long() if z3.is_int(k) else bool(z3.is_true(m.eval(k, model_completion=True)))) for k in extra_vars}
        ctx.hist = hist
        tr = time.time()
        abort = False
        hung = False
        for attempt in range(4):
            try:
                if have_alarm:
                    signal.setitimer(signal.ITIMER_PROF, class_wall_s)
                    signal.setitimer(signal.ITIMER_REAL, 15 * class_wall_s)
                try:
                    assertion, info = harness(ctx, rules)
                finally:
                    if have_alarm:
                        signal.setitimer(signal.ITIMER_PROF, 0)
                        signal.setitimer(signal.ITIMER_REAL, 0)
            except Budget:
                # the real code did not finish on this representative within the budget (termination is the
                # subject of C13): remember it, block this representative only, go on
                hung = True
                res["hangs"].append({"rules": rules, "hist": hist})
                res["budget_exceeded"] += 1
                ctx.opaque = 0
                break
            except Unmodelled as e:
                res["inconclusive"].append({"reason": "unmodelled: " + str(e), "rules": rules, "hist": hist})
                abort = True
                break
            except Exception as e:  # harness bug or unexpected failure of the real code outside a guarded op
                res["errors"].append({"rules": rules, "hist": hist, "error": repr(e), "trace": traceback.format_exc()[-1500:]})
                res["inconclusive"].append({"reason": "harness error: " + repr(e), "rules": rules, "hist": hist})
                abort = True
                break
            newdefs = net.take_pending_defs()
            if not newdefs:
                break
            # definitional atoms (reachability of a new context) were created during the run: the model did not
            # know them, so observations that read them are void.  Extend the model and run the class again.
            s.add(newdefs)
            s.push()
            s.add(net.pin(net.tables_of_model(m)))
            s.add([k == m.eval(k, model_completion=True) for k in extra_vars])
            r0 = s.check()
            if r0 != z3.sat:
                s.pop()
                res["inconclusive"].append({"reason": "could not extend the model with new definitional atoms"})
                abort = True
                break
            m = s.model()
            s.pop()
            ctx.reset(m)
        if abort:
            break
        if hung:
            s.add(z3.Not(z3.And(net.pin(net.tables_of_model(m)) + [k == m.eval(k, model_completion=True) for k in extra_vars])))
            res["classes"] += 1
            res["real_s"] += time.time() - tr
            if len(res["hangs"]) >= 5:
                break
            continue
        res["real_s"] += time.time() - tr
        res["observations"] += ctx.nobs
        PC = fAnd(list(ctx.pc))
        tq = time.time()
        if ctx.mismatch:
            # a region/library answer disagrees with its spec on the representative: decide the assertion
            # at the representative itself
            s.push()
            s.add(net.pin(net.tables_of_model(m)))
            s.add([k == m.eval(k, model_completion=True) for k in extra_vars])
            s.add(z3.Not(assertion))
            r2 = s.check()
            s.pop()
            if r2 == z3.sat:
                res["violations"].append({"rules": rules, "hist": hist, "info": info, "kind": "representative",
                                          "mismatch": [list(map(str, x)) for x in ctx.mismatch[:4]]})
                res["queries"]["class_sat"] += 1
            else:
                res["inconclusive"].append({"reason": "oracle/spec mismatch on representative but assertion holds",
                                            "mismatch": [list(map(str, x)) for x in ctx.mismatch[:4]], "rules": rules, "hist": hist})
            # block only this representative
            s.add(z3.Not(z3.And(net.pin(net.tables_of_model(m)) + [k == m.eval(k, model_completion=True) for k in extra_vars])))
            res["classes"] += 1
            res["z3_s"] += time.time() - tq
            if res["inconclusive"] or stop_on_violation:
                break
            continue
        s.push()
        s.add(PC)
        s.add(z3.Not(assertion))
        r2 = s.check()
        if r2 == z3.sat:
            m2 = s.model()
            res["queries"]["class_sat"] += 1
            cex_rules = net.rules_of_model(m2)
            cex_hist = {str(k): (m2.eval(k, model_completion=True).as_long() if z3.is_int(k) else bool(z3.is_true(m2.eval(k, model_completion=True)))) for k in extra_vars}
            failing_at = []
            try:
                from . import specs as _specs
                for lbl, f in (_specs.LAST_PARTS.get("parts") or []):
                    if not isinstance(f, bool) and z3.is_false(m2.eval(f, model_completion=True)):
                        failing_at.append(lbl)
                        if len(failing_at) >= 4:
                            break
            except Exception:
                pass
            res["violations"].append({"rules": cex_rules, "hist": cex_hist, "info": info, "kind": "class",
                                      "representative": rules, "class_failing": failing_at})
        elif r2 == z3.unsat:
            res["queries"]["class_unsat"] += 1
        else:
            res["queries"]["unknown"] += 1
            res["inconclusive"].append({"reason": "class query unknown", "rules": rules, "hist": hist})
        s.pop()
        res["z3_s"] += time.time() - tq
        if len(res["samples"]) < samples:
            res["samples"].append({"representative": rules, "hist": hist, "pc_size": len(ctx.pc), "info": info})
        s.add(z3.Not(PC))
        res["classes"] += 1
        if res["inconclusive"]:
            break
        if stop_on_violation and res["violations"]:
            break
    res["wall_s"] = time.time() - t0
    res["hazards"] = ctx.hazards[:10]
    ctx.active = False
    return res
