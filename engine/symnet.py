"""SymNet: a symbolic Boolean network (truth table of z3 Booleans) and the definitions
(trap space, percolation, maximal/minimal trap spaces, reduced-STG fixed points, regulation,
asynchronous reachability, attractors) the properties are stated in.  Independent of biobalm.

A subspace is an n-tuple over {0,1,None}; a state is an n-tuple over {0,1}.
Everything returned by the spec methods is a z3 BoolRef over *definitional atoms* that are asserted
once (``defs``), which keeps the per-class queries small (measured 10x over inlining)."""
from __future__ import annotations
import itertools
import z3

NAMES = "abcdefgh"

# fast constructors (the z3 Python layer spends most of its time coercing argument lists)
_ZCTX = z3.main_ctx()
_ZREF = _ZCTX.ref()
_ZTRUE = z3.BoolVal(True)
_ZFALSE = z3.BoolVal(False)


def fAnd(xs):
    n = len(xs)
    if n == 0:
        return _ZTRUE
    if n == 1:
        return xs[0]
    arr = (z3.Ast * n)()
    for i, x in enumerate(xs):
        arr[i] = x.ast
    return z3.BoolRef(z3.Z3_mk_and(_ZREF, n, arr), _ZCTX)


def fOr(xs):
    n = len(xs)
    if n == 0:
        return _ZFALSE
    if n == 1:
        return xs[0]
    arr = (z3.Ast * n)()
    for i, x in enumerate(xs):
        arr[i] = x.ast
    return z3.BoolRef(z3.Z3_mk_or(_ZREF, n, arr), _ZCTX)


def fNot(x):
    return z3.BoolRef(z3.Z3_mk_not(_ZREF, x.ast), _ZCTX)


def fImplies(a, b):
    return z3.BoolRef(z3.Z3_mk_implies(_ZREF, a.ast, b.ast), _ZCTX)


def fIff(a, b):
    return z3.BoolRef(z3.Z3_mk_eq(_ZREF, a.ast, b.ast), _ZCTX)


def in_space(x, S):
    return all(s is None or s == xi for xi, s in zip(x, S))


def refines(M, S):
    """M is a subspace of S"""
    return all(s is None or s == m for m, s in zip(M, S))


def flip(x, v):
    y = list(x)
    y[v] = 1 - y[v]
    return tuple(y)


def meet(A, B):
    """intersection of subspaces or None"""
    r = []
    for a, b in zip(A, B):
        if a is None:
            r.append(b)
        elif b is None or a == b:
            r.append(a)
        else:
            return None
    return tuple(r)


class SymNet:
    """n variables; wiring[v] = tuple of variables f_v may depend on (default all);
    ignore_one=True: each function additionally ignores one (symbolic) variable of its wiring (family D)."""

    def __init__(self, n, wiring=None, ignore_one=False, names=None, tag="F"):
        self.n = n
        self.names = list(names or NAMES[:n])
        self.states = list(itertools.product((0, 1), repeat=n))
        self.subspaces = list(itertools.product((0, 1, None), repeat=n))
        self.tag = tag
        self.defs = []          # definitional equalities
        self.bits = []          # the free symbolic bits (for blocking / counting)
        self.family_constraints = []
        self.wiring = {v: tuple(range(n)) for v in range(n)} if wiring is None else {v: tuple(wiring[v]) for v in range(n)}
        self.F = {}
        for v in range(n):
            deps = self.wiring[v]
            G = {}
            for sub in itertools.product((0, 1), repeat=len(deps)):
                b = z3.Bool(f"{tag}_{v}_{''.join(map(str, sub))}")
                G[sub] = b
                self.bits.append(b)
            if not ignore_one or len(deps) == 0:
                self.F[v] = {x: G[tuple(x[d] for d in deps)] for x in self.states}
            else:
                # selector: which dep is ignored (one-hot over deps); function value = table where
                # the ignored input is read as 0
                sel = [z3.Bool(f"{tag}ign_{v}_{d}") for d in deps]
                self.bits.extend(sel)
                self.family_constraints.append(z3.PbEq([(s, 1) for s in sel], 1))
                self.F[v] = {}
                for x in self.states:
                    alts = []
                    for i, d in enumerate(deps):
                        sub = tuple(0 if dd == d else x[dd] for dd in deps)
                        alts.append(z3.And(sel[i], G[sub]))
                    a = z3.Bool(f"{tag}v_{v}_{''.join(map(str, x))}")
                    self.defs.append(a == z3.Or(alts))
                    self.F[v][x] = a
                # canonical: bits with ignored input = 1 are unused -> force False to avoid duplicate models
                for i, d in enumerate(deps):
                    for sub, b in G.items():
                        if sub[i] == 1:
                            self.family_constraints.append(z3.Implies(sel[i], z3.Not(b)))
        self._build_atoms()

    def _build_atoms(self):
        n, tag = self.n, self.tag
        self._C = {}
        self._T = {}
        self._reach = {}
        self._cache = {}
        for v in range(n):
            for b in (0, 1):
                for S in self.subspaces:
                    a = z3.Bool(f"{tag}C_{v}_{b}_{self.sstr(S)}")
                    self.defs.append(a == z3.And([self.lit(v, x, b) for x in self.states if in_space(x, S)]))
                    self._C[v, b, S] = a
        for S in self.subspaces:
            a = z3.Bool(f"{tag}T_{self.sstr(S)}")
            self.defs.append(a == z3.And([self._C[v, S[v], S] for v in range(n) if S[v] is not None]))
            self._T[S] = a

    @classmethod
    def view(cls, base, fixed, tag):
        """the network obtained from `base` by replacing the update functions of the variables in `fixed`
        (dict index -> 0/1) by constants; shares the symbolic bits of `base`, has its own definitional atoms"""
        o = cls.__new__(cls)
        o.n, o.names, o.states, o.subspaces = base.n, list(base.names), base.states, base.subspaces
        o.tag = tag
        o.defs, o.bits, o.family_constraints = [], base.bits, []
        o.wiring = base.wiring
        o.F = {}
        for v in range(o.n):
            if v in fixed:
                o.F[v] = {x: (_ZTRUE if fixed[v] else _ZFALSE) for x in o.states}
            else:
                o.F[v] = base.F[v]
        o._build_atoms()
        return o

    # ---------------------------------------------------------------- basics
    def sstr(self, S):
        return "".join("*" if s is None else str(s) for s in S)

    def lit(self, v, x, b):
        return self.F[v][x] if b else z3.Not(self.F[v][x])

    def space_of(self, d):
        """dict name->0/1  ->  subspace tuple"""
        for k in d:
            if k not in self.names:
                raise KeyError(k)
        return tuple(d.get(nm) for nm in self.names)

    def dict_of(self, S):
        return {nm: s for nm, s in zip(self.names, S) if s is not None}

    def state_of(self, d):
        return tuple(int(d[nm]) for nm in self.names)

    TRUE = _ZTRUE
    FALSE = _ZFALSE

    @staticmethod
    def And(*xs):
        return fAnd(list(xs[0]) if len(xs) == 1 and isinstance(xs[0], (list, tuple)) else list(xs))

    @staticmethod
    def Or(*xs):
        return fOr(list(xs[0]) if len(xs) == 1 and isinstance(xs[0], (list, tuple)) else list(xs))

    Not = staticmethod(fNot)
    Implies = staticmethod(fImplies)
    Iff = staticmethod(fIff)

    @staticmethod
    def const(b):
        return _ZTRUE if b else _ZFALSE

    # ---------------------------------------------------------------- definitions
    def fval(self, v, x):
        return self.F[v][x]

    def const_on(self, v, b, S):
        """f_v is constantly b on S"""
        return self._C[v, b, S]

    def trap(self, S):
        return self._T[S]

    def trap_rel(self, M, base, V=None):
        """M (refining base) is a trap space of the network restricted to `base`
        (only variables not fixed in base, and inside V if given, are constrained)."""
        cs = [self.const_on(v, M[v], M) for v in range(self.n)
              if M[v] is not None and base[v] is None and (V is None or v in V)]
        return self.And(cs)

    def rtrap(self, M):
        """M is a trap space of the time-reversed dynamics: no transition enters M"""
        key = ("rtrap", M)
        if key not in self._cache:
            cs = []
            for x in self.states:
                if in_space(x, M):
                    for v in range(self.n):
                        if M[v] is not None:
                            y = flip(x, v)
                            # y is outside M (differs in the fixed variable v); y -> x would need f_v(y) = M_v
                            cs.append(self.F[v][y] if y[v] else fNot(self.F[v][y]))
            self._cache[key] = self.And(cs)
        return self._cache[key]

    def is_source(self, v, S):
        """f_v restricted to S is the identity on x_v"""
        key = ("src", v, S)
        if key not in self._cache:
            self._cache[key] = self.And([self.F[v][x] == bool(x[v]) for x in self.states if in_space(x, S)])
        return self._cache[key]

    def perc_eq(self, S, R):
        """PERC(S) == R : R is the least fixed point of value propagation from S (given values kept)."""
        key = ("perc", S, R)
        if key in self._cache:
            return self._cache[key]
        if not refines(R, S):
            f = self.FALSE
        else:
            closed = [z3.Not(self.const_on(v, b, R)) for v in range(self.n) if R[v] is None for b in (0, 1)]
            new = [v for v in range(self.n) if S[v] is None and R[v] is not None]
            alts = []
            for perm in itertools.permutations(new):
                cur = list(S)
                cs = []
                for v in perm:
                    cs.append(self.const_on(v, R[v], tuple(cur)))
                    cur[v] = R[v]
                alts.append(self.And(cs))
            f = self.And(closed + [self.Or(alts)]) if new else self.And(closed)
        self._cache[key] = f
        return f

    def perc_candidates(self, S):
        return [R for R in self.subspaces if refines(R, S)]

    def trap_candidates(self, base, V=None, ensure=None, srcs=(), avoid=(), strict_free=None):
        """Subspaces M refining base∪ensure that fix only variables of base or V, fix all srcs,
        are inside no avoid space; strict_free (list of variables or None): at least one of them is fixed."""
        B = base if ensure is None else meet(base, ensure)
        if B is None:
            return []
        out = []
        for M in self.subspaces:
            if not refines(M, B):
                continue
            if V is not None and any(M[v] is not None and base[v] is None and v not in V for v in range(self.n)):
                continue
            if any(M[s] is None for s in srcs):
                continue
            if any(refines(M, a) for a in avoid):
                continue
            if strict_free is not None and not any(M[v] is not None for v in strict_free):
                continue
            out.append(M)
        return out

    def trappist_spec(self, problem, base, V=None, ensure=None, srcs=(), avoid=(), reverse=False):
        """dict M -> formula 'M is in the answer set of trappist(problem)' for the network restricted to
        base (variables V).  Mirrors the documented contract: max = inclusion-maximal non-trivial trap
        spaces among those fixing srcs; min = inclusion-minimal; fix = fixed points.  reverse: time-reversed
        network (whole network only)."""
        key = ("trappist", problem, base, None if V is None else tuple(sorted(V)), ensure, tuple(srcs), tuple(avoid), reverse)
        if key in self._cache:
            return self._cache[key]
        if reverse:
            if V is not None or any(b is not None for b in base):
                raise ValueError("time reversal is specified for the whole network only")
            saved = self.trap_rel
            self.trap_rel = lambda M, base_, V_=None: self.rtrap(M)
            # build with the reversed trap predicate (no caching under the forward key)
            try:
                self._cache.pop(("trappist", problem, base, None, ensure, tuple(srcs), tuple(avoid), False), None)
                res = SymNet.trappist_spec(self, problem, base, V, ensure, srcs, avoid, reverse=False)
                self._cache.pop(("trappist", problem, base, None, ensure, tuple(srcs), tuple(avoid), False), None)
            finally:
                self.trap_rel = saved
            self._cache[key] = res
            return res
        netvars = [v for v in range(self.n) if base[v] is None and (V is None or v in V)]
        if problem == "max":
            ens = ensure or (None,) * self.n
            free = [v for v in netvars if ens[v] is None]
            cands = self.trap_candidates(base, V, ensure, srcs if free else (), avoid, strict_free=free if free else None)
            res = {M: self.And([self.trap_rel(M, base, V)] +
                               [z3.Not(self.trap_rel(M2, base, V)) for M2 in cands if M2 != M and refines(M, M2)])
                   for M in cands}
        elif problem == "min":
            cands = self.trap_candidates(base, V, ensure, (), avoid)
            res = {M: self.And([self.trap_rel(M, base, V)] +
                               [z3.Not(self.trap_rel(M2, base, V)) for M2 in cands if M2 != M and refines(M2, M)])
                   for M in cands}
        elif problem == "fix":
            cands = [M for M in self.trap_candidates(base, V, ensure, (), avoid) if all(M[v] is not None for v in netvars)]
            res = {M: self.trap_rel(M, base, V) for M in cands}
        else:
            raise ValueError(problem)
        self._cache[key] = res
        return res

    def max_traps(self, S, srcs=()):
        return self.trappist_spec("max", (None,) * self.n, None, S, tuple(srcs), ())

    def min_traps(self, S=None):
        return self.trappist_spec("min", (None,) * self.n, None, S, (), ())

    def rfp_spec(self, base, V, retained, ensure=None, avoid=()):
        """dict y -> formula: y (a subspace fixing exactly base ∪ netvars) is a deadlock of the reduced
        STG of the network restricted to base: every variable is stable except that retained variables
        may only not move *towards* their retained value."""
        netvars = [v for v in range(self.n) if base[v] is None and (V is None or v in V)]
        out = {}
        ens = ensure or (None,) * self.n
        for vals in itertools.product((0, 1), repeat=len(netvars)):
            y = list(base)
            for v, b in zip(netvars, vals):
                y[v] = b
            y = tuple(y)
            if not refines(y, ens):
                continue
            if any(refines(y, a) for a in avoid):
                continue
            # representative total state (non-net variables read as 0: independence is in PC)
            x = tuple(0 if s is None else s for s in y)
            cs = []
            for v in netvars:
                if v in retained and y[v] == retained[v]:
                    continue
                cs.append(self.F[v][x] == bool(x[v]))
            out[y] = self.And(cs)
        return out

    def reg(self, u, v, S):
        """(pos, neg) witness formulas for the regulation u -> v inside S (u, v free in S)."""
        key = ("reg", u, v, S)
        if key not in self._cache:
            pos, neg = [], []
            for x in self.states:
                if in_space(x, S) and x[u] == 0:
                    y = flip(x, u)
                    if in_space(y, S):
                        pos.append(z3.And(z3.Not(self.F[v][x]), self.F[v][y]))
                        neg.append(z3.And(self.F[v][x], z3.Not(self.F[v][y])))
            self._cache[key] = (self.Or(pos), self.Or(neg))
        return self._cache[key]

    def count_true(self, v, S, negate=False):
        """z3 Int: number of states of S in which f_v is 1 (0 if negate)."""
        return z3.Sum([z3.If(self.F[v][x], 0 if negate else 1, 1 if negate else 0) for x in self.states if in_space(x, S)])

    # ---------------------------------------------------------------- dynamics
    def _build_reach(self, override):
        """override: tuple over {None,0,1}: variables whose update function is replaced by a constant"""
        n, states = self.n, self.states
        tagk = self.tag + "R" + "".join("-" if o is None else str(o) for o in override)

        def moves(v, x):   # v can flip in x
            if override[v] is not None:
                return self.const(x[v] != override[v])
            return self.F[v][x] != bool(x[v])
        R = {x: {y: self.const(x == y) for y in states} for x in states}
        for x in states:
            for v in range(n):
                R[x][flip(x, v)] = moves(v, x)
        k = 1
        while k < len(states):
            RA = {x: {y: z3.Bool(f"{tagk}{k}_{''.join(map(str, x))}_{''.join(map(str, y))}") for y in states} for x in states}
            for x in states:
                for y in states:
                    self.pending_defs.append(RA[x][y] == R[x][y])
            R = {x: {y: z3.Or([z3.And(RA[x][z], RA[z][y]) for z in states]) for y in states} for x in states}
            k *= 2
        RA = {x: {y: z3.Bool(f"{tagk}_{''.join(map(str, x))}_{''.join(map(str, y))}") for y in states} for x in states}
        for x in states:
            for y in states:
                self.pending_defs.append(RA[x][y] == R[x][y])
        AT = {}
        for x in states:
            a = z3.Bool(f"{tagk}A_{''.join(map(str, x))}")
            self.pending_defs.append(a == z3.And([z3.Implies(RA[x][y], RA[y][x]) for y in states]))
            AT[x] = a
        return RA, AT

    pending_defs: list

    def _dyn(self, override=None):
        override = override or (None,) * self.n
        if override not in self._reach:
            if not hasattr(self, "pending_defs"):
                self.pending_defs = []
            self._reach[override] = self._build_reach(override)
        return self._reach[override]

    def take_pending_defs(self):
        """definitional equalities created lazily (reachability atoms); the explorer adds them to its solver"""
        d = getattr(self, "pending_defs", [])
        self.pending_defs = []
        for w in getattr(self, "views", []):
            d = d + w.take_pending_defs()
        return d

    def reach(self, x, y, override=None):
        return self._dyn(override)[0][x][y]

    def attr(self, x, override=None):
        """x lies in an attractor (terminal SCC of the asynchronous STG)"""
        return self._dyn(override)[1][x]

    # ---------------------------------------------------------------- models
    def rules_of_model(self, m, names=None):
        names = names or self.names
        lines = []
        for v in range(self.n):
            terms = []
            for x in self.states:
                if z3.is_true(m.eval(self.F[v][x], model_completion=True)):
                    terms.append("(" + " & ".join((names[j] if x[j] else "!" + names[j]) for j in range(self.n)) + ")")
            f = " | ".join(terms) if terms else "false"
            if len(terms) == len(self.states):
                f = "true"
            lines.append(f"{names[v]}, {f}")
        return "\n".join(lines) + "\n"

    def tables_of_model(self, m):
        return [[1 if z3.is_true(m.eval(self.F[v][x], model_completion=True)) else 0 for x in self.states] for v in range(self.n)]

    def pin(self, tables):
        """constraints F == concrete tables"""
        return [self.F[v][x] == bool(tables[v][i]) for v in range(self.n) for i, x in enumerate(self.states)]


def view_transformed(base, perm, flips, names, tag):
    """the same network written down differently: new variable j is old variable perm[j], stored negated if
    flips[j]; `names` are the new names in the new declaration order.  Shares the bits of `base`."""
    n = base.n
    o = SymNet.__new__(SymNet)
    o.n, o.names = n, list(names)
    o.states, o.subspaces = base.states, base.subspaces
    o.tag = tag
    o.defs, o.bits, o.family_constraints = [], base.bits, []
    o.wiring = {j: tuple(range(n)) for j in range(n)}
    o.F = {}
    for j in range(n):
        row = {}
        for y in o.states:
            x = [0] * n
            for jj in range(n):
                x[perm[jj]] = y[jj] ^ flips[jj]
            f = base.F[perm[j]][tuple(x)]
            row[y] = fNot(f) if flips[j] else f
        o.F[j] = row
    o._build_atoms()
    o.perm, o.flips = list(perm), list(flips)
    return o


def map_back(S2, perm, flips):
    """a subspace/state of the transformed network -> the original network's coordinates"""
    n = len(perm)
    S = [None] * n
    for j in range(n):
        if S2[j] is not None:
            S[perm[j]] = S2[j] ^ flips[j]
    return tuple(S)


class ProductNet(SymNet):
    """disjoint union of independent symbolic components (variables concatenated in order).  Definitions are
    composed from the components' atoms (trap spaces, percolation, reachability and attractors of a disjoint
    union are products), so 5-8 variable modular networks stay cheap."""

    def __init__(self, comps):
        self.comps = comps
        self.n = sum(c.n for c in comps)
        self.names = list(NAMES[:self.n])
        self.off = []
        o = 0
        for c in comps:
            self.off.append(o)
            c.names = self.names[o:o + c.n]
            o += c.n
        self.comp_of = {}
        for i, c in enumerate(comps):
            for vl in range(c.n):
                self.comp_of[self.off[i] + vl] = (i, vl)
        self.states = list(itertools.product((0, 1), repeat=self.n))
        self.subspaces = list(itertools.product((0, 1, None), repeat=self.n))
        self.tag = "P"
        self.defs = [d for c in comps for d in c.defs]
        self.bits = [b for c in comps for b in c.bits]
        self.family_constraints = [f for c in comps for f in c.family_constraints]
        self.wiring = {v: tuple(self.off[i] + d for d in comps[i].wiring[vl]) for v, (i, vl) in self.comp_of.items()}
        self._cache = {}
        self._reach = {}

        class _Fv(dict):
            pass
        net = self

        class FRow:
            def __init__(self, v):
                self.i, self.vl = net.comp_of[v]

            def __getitem__(self, x):
                return net.comps[self.i].F[self.vl][net.part(x, self.i)]
        self.F = {v: FRow(v) for v in range(self.n)}

    def part(self, S, i):
        return tuple(S[self.off[i]:self.off[i] + self.comps[i].n])

    def parts(self, S):
        return [self.part(S, i) for i in range(len(self.comps))]

    def join(self, parts):
        out = []
        for p in parts:
            out += list(p)
        return tuple(out)

    def const_on(self, v, b, S):
        i, vl = self.comp_of[v]
        return self.comps[i].const_on(vl, b, self.part(S, i))

    def trap(self, S):
        return self.And([c.trap(self.part(S, i)) for i, c in enumerate(self.comps)])

    def is_source(self, v, S):
        i, vl = self.comp_of[v]
        return self.comps[i].is_source(vl, self.part(S, i))

    def perc_eq(self, S, R):
        return self.And([c.perc_eq(self.part(S, i), self.part(R, i)) for i, c in enumerate(self.comps)])

    def reg(self, u, v, S):
        (i, ul), (j, vl) = self.comp_of[u], self.comp_of[v]
        if i != j:
            return self.FALSE, self.FALSE
        return self.comps[i].reg(ul, vl, self.part(S, i))

    def count_true(self, v, S, negate=False):
        i, vl = self.comp_of[v]
        e = self.comps[i].count_true(vl, self.part(S, i), negate)
        other = sum(1 for k in range(self.n) if S[k] is None and self.comp_of[k][0] != i)
        return e * (2 ** other)

    def reach(self, x, y, override=None):
        ov = override or (None,) * self.n
        return self.And([c.reach(self.part(x, i), self.part(y, i), self.part(ov, i) if any(o is not None for o in self.part(ov, i)) else None)
                         for i, c in enumerate(self.comps)])

    def attr(self, x, override=None):
        ov = override or (None,) * self.n
        return self.And([c.attr(self.part(x, i), self.part(ov, i) if any(o is not None for o in self.part(ov, i)) else None)
                         for i, c in enumerate(self.comps)])

    def take_pending_defs(self):
        out = []
        for c in self.comps:
            out += c.take_pending_defs()
        return out

    def is_mintrap(self, M):
        from . import specs
        return self.And([specs.is_mintrap(c, self.part(M, i)) for i, c in enumerate(self.comps)])

    def has_motif_avoidant(self):
        from . import specs
        return self.Or([specs.has_motif_avoidant(c) for c in self.comps])

    # ---- compositional observation of the trap-space solver (the generic candidate enumeration is 9^n)
    def trappist_obs(self, problem, base, ensure, srcs, got):
        """-> (list of (formula, bool, detail), list of concrete inconsistencies) for an answer list `got`
        of global subspaces of trappist(problem) on the whole network restricted to base, ensure given"""
        ens = ensure or (None,) * self.n
        S = meet(base, ens)
        obs, bad = [], []
        if S is None:
            return obs, ["ensure conflicts with base"]
        k = len(self.comps)
        gotp = [self.parts(M) for M in got]
        Sp = self.parts(S)
        if problem == "min":
            proj = [set(g[i] for g in gotp) for i in range(k)]
            if set(got) != {self.join(t) for t in itertools.product(*proj)} and got:
                bad.append("minimal trap spaces are not the product of their component projections")
            for i, c in enumerate(self.comps):
                spec = c.trappist_spec("min", self.part(base, i), None, self.part(ens, i), (), ())
                for M, f in spec.items():
                    obs.append((f, (M in proj[i]) if got else False, (i, M)))
                if not got:
                    # no answer at all: some component has none (cannot happen for min); record as inconsistency
                    bad.append("no minimal trap space")
            return obs, bad
        if problem == "max":
            srcs_i = [tuple(v - self.off[i] for v in srcs if self.comp_of[v][0] == i and ens[v] is None) for i in range(k)]
            I = [i for i in range(k) if srcs_i[i]]
            free_i = [[v for v in range(c.n) if self.part(base, i)[v] is None and self.part(ens, i)[v] is None] for i, c in enumerate(self.comps)]
            if not I:
                # answers differ from S in exactly one component, where they are a maximal trap space of it
                for g in gotp:
                    diff = [i for i in range(k) if g[i] != Sp[i]]
                    if len(diff) != 1:
                        bad.append(f"stable motif {got[gotp.index(g)]} restricts {len(diff)} components")
                for i, c in enumerate(self.comps):
                    if not free_i[i]:
                        continue
                    spec = c.trappist_spec("max", self.part(base, i), None, self.part(ens, i), (), ())
                    mine = {g[i] for g in gotp if [j for j in range(k) if g[j] != Sp[j]] == [i]}
                    for M, f in spec.items():
                        obs.append((f, M in mine, (i, M)))
                # the other components must be (relative) trap spaces as a whole: true for node spaces
                return obs, bad
            # sources present: every component with a free source is restricted simultaneously
            proj = {i: set(g[i] for g in gotp) for i in I}
            want = set()
            for t in itertools.product(*[sorted(proj[i], key=str) for i in I]):
                parts = list(Sp)
                for i, m in zip(I, t):
                    parts[i] = m
                want.add(self.join(parts))
            if set(got) != want:
                bad.append("source-fixing stable motifs are not the product of their component projections")
            for i in I:
                c = self.comps[i]
                spec = c.trappist_spec("max", self.part(base, i), None, self.part(ens, i), srcs_i[i], ())
                for M, f in spec.items():
                    obs.append((f, M in proj[i], (i, M)))
            return obs, bad
        raise ValueError(problem)

    # ---- models
    def rules_of_model(self, m, names=None):
        out = []
        for i, c in enumerate(self.comps):
            out.append(c.rules_of_model(m, c.names).rstrip("\n"))
        return "\n".join(out) + "\n"

    def tables_of_model(self, m):
        return [c.tables_of_model(m) for c in self.comps]

    def pin(self, tables):
        if tables and isinstance(tables[0][0], list):
            out = []
            for c, t in zip(self.comps, tables):
                out += c.pin(t)
            return out
        # global tables (from a parsed bnet): project on the components
        out = []
        idx = {x: k for k, x in enumerate(self.states)}
        for v in range(self.n):
            i, vl = self.comp_of[v]
            c = self.comps[i]
            for xl in c.states:
                x = [0] * self.n
                for d, b in enumerate(xl):
                    x[self.off[i] + d] = b
                out.append(c.F[vl][xl] == bool(tables[v][idx[tuple(x)]]))
        return out


def family(name):
    """Named network families of DESIGN.md §5 -> SymNet"""
    if name == "U1":
        return SymNet(1)
    if name == "U2":
        return SymNet(2)
    if name == "U3":
        return SymNet(3)
    if name == "D3":
        return SymNet(3, ignore_one=True)
    if name == "U4":
        return SymNet(4)
    if name == "B22":      # blocks {a,b},{c,d}, optional feed-forward a->c
        return SymNet(4, wiring={0: (0, 1), 1: (0, 1), 2: (0, 2, 3), 3: (2, 3)})
    if name == "B21":      # blocks {a,b},{c}: a<-(a,b) b<-(a,b) c<-(a,c)
        return SymNet(3, wiring={0: (0, 1), 1: (0, 1), 2: (0, 2)})
    if name == "S1C2":     # source a, core b<-(a,b,c), c<-(a,b,c)
        return SymNet(3, wiring={0: (0,), 1: (0, 1, 2), 2: (0, 1, 2)})
    if name == "S2C2":     # sources a,b ; c<-(a,c,d), d<-(b,c,d)
        return SymNet(4, wiring={0: (0,), 1: (1,), 2: (0, 2, 3), 3: (1, 2, 3)})
    if name == "S1C3":
        return SymNet(4, wiring={0: (0,), 1: (0, 1, 2), 2: (0, 2, 3), 3: (0, 3, 1)})
    if name == "CH4":      # chain of SCCs a<->b -> c<->d
        return SymNet(4, wiring={0: (0, 1), 1: (0, 1), 2: (1, 2, 3), 3: (2, 3)})
    if name == "R4":       # ring with self-loops: each depends on itself and predecessor
        return SymNet(4, wiring={0: (0, 3), 1: (1, 0), 2: (2, 1), 3: (3, 2)})
    if name == "U3sym":
        # 3 variables, solver-constrained so that some variable w is forced to 1 by two *different* valuations of
        # the same pair (u,v) (u != v): symmetric driver sets - the shape on which orderings of equal-key items matter
        net = SymNet(3)
        alts = []
        for w in range(3):
            u, v = [i for i in range(3) if i != w]
            cs = []
            for x in net.states:
                if x[u] != x[v] or x[w] == 1:
                    cs.append(net.F[w][x])
            cs.append(fOr([fNot(net.F[w][x]) for x in net.states if x[u] == x[v] and x[w] == 0]))
            # ... and w = 0 can persist (some trap space has w = 0), so reaching w = 1 needs an intervention
            cs.append(fOr([net.trap(S) for S in net.subspaces if S[w] == 0]))
            alts.append(fAnd(cs))
        net.family_constraints.append(fOr(alts))
        return net
    if name == "SYM4":
        # a,b <- (self, c);  c <- (a,b,c,d);  d <- (c): constrained so that {c,d} = 1 is a two-variable motif that both
        # valuations a != b force, while c = d = 0 can persist: symmetric two-variable driver sets
        net = SymNet(4, wiring={0: (0, 2), 1: (1, 2), 2: (0, 1, 2, 3), 3: (2,)})
        cs = []
        for x in net.states:
            cs.append(net.F[3][x] if x[2] else fNot(net.F[3][x]))          # d follows c
            if x[0] != x[1] or x[3] == 1:
                cs.append(net.F[2][x])
        # c alone is not self-sustaining, so the stable motif is the pair {c, d}
        cs.append(fOr([fNot(net.F[2][x]) for x in net.states if x[2] == 1 and x[3] == 0 and x[0] == x[1]]))
        cs.append(fOr([net.trap(S) for S in net.subspaces if S[2] == 0 and S[3] == 0]))
        net.family_constraints += cs
        return net
    if name == "MAAD4":
        # a 3-variable core (a, b, c) constrained to have a motif-avoidant attractor, and a fourth variable d <- (d, a)
        # downstream of it that has a self-sustaining value: the blocks of the motifs are nested ({a,b,c} inside
        # {a,b,c,d}) and the minimal one is not free of motif-avoidant attractors
        from . import specs
        net = SymNet(4, wiring={0: (0, 1, 2), 1: (0, 1, 2), 2: (0, 1, 2), 3: (3, 0)})
        core = SymNet(3, tag="F")          # same bit names as the first three variables of `net` (same wiring, same tag)
        net.family_constraints.append(specs.has_motif_avoidant(core))
        net.family_constraints += core.take_pending_defs()
        E = (None,) * 4
        p, q = net.reg(0, 3, E)
        net.family_constraints.append(fOr([p, q]))                                        # d really depends on a
        net.family_constraints.append(fOr([net.trap((None, None, None, 0)), net.trap((None, None, None, 1))]))
        return net
    if name == "DRV4":
        # 4 variables; the all-ones state is a fixed point that {a,b}=1 forces, {a,c,d}=1 forces as well, while no
        # proper subset of either does: minimal driver sets of different sizes that share a variable
        net = SymNet(4)
        ones = (1, 1, 1, 1)
        cs = [net.trap(ones), net.perc_eq((1, 1, None, None), ones), net.perc_eq((1, None, 1, 1), ones)]
        for S in [(1, None, None, None), (None, 1, None, None), (1, None, 1, None), (1, None, None, 1), (None, None, 1, 1), (None, None, 1, None), (None, None, None, 1)]:
            cs.append(fNot(net.perc_eq(S, ones)))
        cs.append(net.perc_eq((None,) * 4, (None,) * 4))
        net.family_constraints += cs
        return net
    if name == "MAAG5":
        # a 3-variable core (a, b, c) whose first two functions also read x; x <-> y is a switch.  Constrained so that the
        # core has a motif-avoidant attractor when the switch is on and none when it is off (the core is GATED by x): the
        # minimal trap spaces below the two switch nodes differ - unlike in a product
        from . import specs
        net = SymNet(5, wiring={0: (0, 1, 2, 3), 1: (0, 1, 2, 3), 2: (0, 1, 2), 3: (4,), 4: (3,)})
        net.family_constraints += [net.trap((None, None, None, 0, 0)), net.trap((None, None, None, 1, 1))]

        def core(val, tag):
            o = SymNet.__new__(SymNet)
            o.n, o.names = 3, list(NAMES[:3])
            o.states = list(itertools.product((0, 1), repeat=3))
            o.subspaces = list(itertools.product((0, 1, None), repeat=3))
            o.tag = tag
            o.defs, o.bits, o.family_constraints = [], net.bits, []
            o.wiring = {j: (0, 1, 2) for j in range(3)}
            o.F = {v: {x: net.F[v][x + (val, val)] for x in o.states} for v in range(3)}
            o._build_atoms()
            return o
        on, off = core(1, "Gon"), core(0, "Goff")
        net.family_constraints.append(fNot(specs.has_motif_avoidant(off)))
        # ... and some fixed point of the switched-off core lies ON the motif-avoidant attractor of the switched-on core
        # (so that the two switch nodes have minimal trap spaces whose projections overlap the other node's attractor)
        net.family_constraints.append(fOr([fAnd([off.trap(p_), on.attr(p_), fNot(fOr([specs.is_mintrap(on, M) for M in on.subspaces if in_space(p_, M)]))])
                                           for p_ in on.states]))
        # ... and the core has a fixed point that is a trap space whatever the switch does (so that the minimal trap space
        # of the "on" node is also reached through another branch, which is when minimal-space expansion skips that node)
        net.family_constraints.append(fOr([net.trap(p_ + (None, None)) for p_ in on.states]))
        net.family_constraints += on.take_pending_defs() + off.take_pending_defs() + on.defs + off.defs
        return net
    if name == "TWOATT3":
        # 3 variables, no trap space except the whole space, at least two attractors: a MINIMAL trap space that holds
        # more than one attractor (code that believes "one attractor per minimal trap space" is wrong here)
        net = SymNet(3)
        net.family_constraints += [fNot(net.trap(S)) for S in net.subspaces if any(x is not None for x in S)]
        net.family_constraints.append(fOr([fAnd([net.attr(x), net.attr(y), fNot(net.reach(x, y))])
                                           for i, x in enumerate(net.states) for y in net.states[i + 1:]]))
        net.family_constraints += net.take_pending_defs()
        return net
    if name == "SKIP3":
        # 3 variables (x, y, z) constrained so that the full diagram has a SHORTCUT: {x=1} and {y=1} are both stable motifs
        # of the whole space, {x=1} percolates to {x=1,y=1} (which is therefore also a successor of the node {y=1}), and
        # {x=1,y=1} has a trap space below it: root -> B -> C -> D together with root -> C (nodes with two parents at
        # different distances from the root - where depth bookkeeping has something to get wrong)
        net = SymNet(3)
        E = (None, None, None)
        net.family_constraints += [net.perc_eq(E, E), net.trap((1, None, None)), net.perc_eq((1, None, None), (1, 1, None)),
                                   net.trap((None, 1, None)), net.perc_eq((None, 1, None), (None, 1, None)),
                                   fOr([net.trap((1, 1, 0)), net.trap((1, 1, 1))]), fNot(net.perc_eq((1, 1, None), (1, 1, 0))), fNot(net.perc_eq((1, 1, None), (1, 1, 1)))]
        return net
    if name == "N3":
        # 3 variables, every variable negatively auto-regulated somewhere (maximal negative feedback vertex sets)
        net = SymNet(3)
        E = (None,) * 3
        for v in range(3):
            net.family_constraints.append(net.reg(v, v, E)[1])
        return net
    if name.startswith("P:"):
        # product of named component families, e.g. P:U3+SW2 ; component tags keep the bits apart
        comps = []
        for k, part in enumerate(name[2:].split("+")):
            comps.append(component(part, f"F{k}"))
        return ProductNet(comps)
    raise KeyError(name)


def component(name, tag):
    if name == "U3":
        return SymNet(3, tag=tag)
    if name == "D3":
        return SymNet(3, ignore_one=True, tag=tag)
    if name == "U2":
        return SymNet(2, tag=tag)
    if name == "U1":
        return SymNet(1, tag=tag)
    if name == "MAA3":
        # 3-variable component constrained (by the solver) to have a motif-avoidant attractor
        from . import specs
        c = SymNet(3, tag=tag)
        c.family_constraints.append(specs.has_motif_avoidant(c))
        c.family_constraints += c.take_pending_defs()
        return c
    if name == "SW2":
        # 2-variable component with at least two minimal trap spaces (a switch)
        from . import specs
        c = SymNet(2, tag=tag)
        mts = [specs.is_mintrap(c, M) for M in c.subspaces]
        c.family_constraints.append(z3.PbGe([(f, 1) for f in mts], 2))
        return c
    if name == "NEST4":
        # 4 variables (x, A, B, C): x = 1 is a trap space that contains a motif-avoidant attractor, while every attractor
        # with x = 0 lies in a minimal trap space: the motif-avoidant attractor sits at an *inner* node of the component's
        # own succession diagram, not at its root
        from . import specs
        c = SymNet(4, tag=tag)
        inmin = lambda st: fOr([specs.is_mintrap(c, M) for M in c.subspaces if in_space(st, M)])
        c.family_constraints.append(c.trap((1, None, None, None)))
        c.family_constraints.append(fOr([fAnd([c.attr(st), fNot(inmin(st))]) for st in c.states if st[0] == 1]))
        c.family_constraints += [z3.Implies(c.attr(st), inmin(st)) for st in c.states if st[0] == 0]
        c.family_constraints += c.take_pending_defs()
        return c
    if name == "NEST2":
        # 2 variables with a trap space fixing one variable that is closed under percolation and contains a smaller trap
        # space (a non-minimal inner node of the component's own diagram), nothing fixed at the root
        c = SymNet(2, tag=tag)
        alts = []
        for S in c.subspaces:
            if sum(1 for x in S if x is not None) == 1:
                subs = [M for M in c.subspaces if all(x is not None for x in M) and refines(M, S)]
                alts.append(fAnd([c.trap(S), c.perc_eq(S, S), fOr([c.trap(M) for M in subs])]))
        c.family_constraints.append(fOr(alts))
        c.family_constraints.append(c.perc_eq((None, None), (None, None)))
        return c
    if name == "RING3":
        # a ring a <- c, b <- a, c <- b with a stable motif that fixes all three variables at once
        c = SymNet(3, wiring={0: (2,), 1: (0,), 2: (1,)}, tag=tag)
        c.family_constraints.append(fOr([c.trap(S) for S in c.subspaces if all(x is not None for x in S)]))
        c.family_constraints += [fNot(c.is_source(v, (None,) * 3)) for v in range(3)]
        return c
    if name == "MAAD4":
        from . import specs
        c = SymNet(4, wiring={0: (0, 1, 2), 1: (0, 1, 2), 2: (0, 1, 2), 3: (3, 0)}, tag=tag)
        core = SymNet(3, tag=tag)
        c.family_constraints.append(specs.has_motif_avoidant(core))
        c.family_constraints += core.take_pending_defs()
        p, q = c.reg(0, 3, (None,) * 4)
        c.family_constraints.append(fOr([p, q]))
        c.family_constraints.append(fOr([c.trap((None, None, None, 0)), c.trap((None, None, None, 1))]))
        return c
    if name in ("NB3", "NB3r"):
        # nested blocks: a <- (a, b), b <- (c), c <- (b).  Constrained so that the cycle {b, c} carries a stable motif of its
        # own and a has a self-sustaining value that needs b: the motifs of the component then live in two blocks, one a
        # proper superset of the other ({b,c} and {a,b,c}) - the shape block expansion has to filter for minimality
        if name == "NB3r":      # the same shape with the cycle declared first: (b, c, a) -> variables 0, 1 cycle, 2 dependent
            c = SymNet(3, wiring={0: (1,), 1: (0,), 2: (2, 0)}, tag=tag)
            E = (None, None, None)
            p, q = c.reg(0, 2, E)
            c.family_constraints.append(fOr([p, q]))
            c.family_constraints.append(fOr([c.trap(S) for S in c.subspaces if S[2] is None and S[0] is not None and S[1] is not None]))
            c.family_constraints.append(fOr([fAnd([c.trap(S), fNot(c.trap((S[0], S[1], None)))]) for S in c.subspaces if S[2] is not None and (S[0] is None) == (S[1] is None)]
                                            + [c.trap((None, None, 0)), c.trap((None, None, 1))]))
            return c
        c = SymNet(3, wiring={0: (0, 1), 1: (2,), 2: (1,)}, tag=tag)
        E = (None, None, None)
        p, q = c.reg(1, 0, E)
        c.family_constraints.append(fOr([p, q]))                                                    # a really depends on b
        c.family_constraints.append(fOr([c.trap(S) for S in c.subspaces if S[0] is None and S[1] is not None and S[2] is not None]))
        c.family_constraints.append(fOr([fAnd([c.trap(S), fNot(c.trap((None, S[1], S[2])))]) for S in c.subspaces if S[0] is not None and (S[1] is None) == (S[2] is None)]
                                        + [c.trap((0, None, None)), c.trap((1, None, None))]))
        return c
    if name == "SRC1":
        c = SymNet(1, tag=tag)
        c.family_constraints.append(c.is_source(0, (None,)))
        return c
    raise KeyError(name)
