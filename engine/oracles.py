"""Contract-level oracles and default-deny proxies for the coarse mode of E-CAB.

Installed into the *harness process only* (module attributes of the already imported biobalm modules are
replaced; /repo is untouched).  Each oracle runs the real function / native library on the representative
and records its answer as a constraint over the symbolic truth table (DESIGN.md §3.2, §8).

NetCtx = (base, V): the network a handle denotes is the original network restricted to the subspace
`base` (tuple over {0,1,None}) with variable set V (frozenset of indices, None = all free variables of base).
"""
from __future__ import annotations
import sys
import itertools
import z3
import networkx as nx
import biodivine_aeon as ba

from .cab import CTX, Unmodelled, SymInt
from .symnet import refines, in_space, meet, fNot

import biobalm
import biobalm.succession_diagram as SDM
import biobalm.trappist_core as TC
import biobalm.space_utils as SU
import biobalm.petri_net_translation as PNT
import biobalm.interaction_graph_utils as IGU
import biobalm.control as CTRL
import biobalm._sd_attractors.attractor_candidates as AC
import biobalm._sd_attractors.attractor_symbolic as AS
import biobalm._sd_algorithms.expand_source_blocks as ESB
import biobalm._sd_algorithms.expand_source_SCCs as ESS
import biobalm._sd_algorithms.expand_minimal_spaces as EMS
import biobalm._sd_algorithms.expand_attractor_seeds as EAS
import biobalm._sd_algorithms.expand_to_target as ETT
import biobalm._sd_algorithms.expand_bfs as EBFS
import biobalm._sd_algorithms.expand_dfs as EDFS
import biobalm.drivers as DRV
import biobalm.symbolic_utils as SYU

REAL = {}          # name -> original object
_PATCHED = []      # (module, attr, original)
LIST_ORDER = "canonical"   # canonical | reversed | real : resolution of oracle list order
# fault injection: raise in the k-th *solver* call (the ASP solver regions; C15 quantifies over solver calls)
FAULT = {"at": None, "count": 0, "regions": ("trappist", "compute_fixed_point_reduced_STG")}


def _biobalm_modules():
    return [m for k, m in list(sys.modules.items()) if k == "biobalm" or k.startswith("biobalm.")]


def patch_all(orig, repl, name):
    REAL[name] = orig
    n = 0
    for mod in _biobalm_modules():
        for attr, val in list(vars(mod).items()):
            if val is orig:
                _PATCHED.append((mod, attr, orig))
                setattr(mod, attr, repl)
                n += 1
    return n


class use_net:
    """temporarily interpret the handles created inside the block over another SymNet (a view of the same bits)"""

    def __init__(self, net):
        self.net = net

    def __enter__(self):
        self.old = CTX.net
        CTX.net = self.net

    def __exit__(self, *a):
        CTX.net = self.old


def uninstall():
    for mod, attr, orig in reversed(_PATCHED):
        setattr(mod, attr, orig)
    _PATCHED.clear()


def unwrap(o):
    if isinstance(o, Proxy):
        return object.__getattribute__(o, "_real")
    if isinstance(o, (list, tuple)):
        return type(o)(unwrap(x) for x in o)
    return o


def nctx_of(o, ensure=None):
    if isinstance(o, Proxy):
        return object.__getattribute__(o, "_nctx")
    if isinstance(o, nx.DiGraph):
        t = o.graph.get("verif_nctx")
        if t is None and o.number_of_nodes() == 0 and ensure is not None and all(nm in ensure for nm in CTX.net.names):
            # the empty net biobalm uses for a fixed-point node
            return (rawspace(ensure), frozenset())
        if t is None:
            raise Unmodelled("Petri net without network context")
        return (tuple(t[0]), None if t[1] is None else frozenset(t[1]))
    raise Unmodelled(f"no network context for {type(o).__name__}")


def netvars(nctx):
    base, V = nctx
    return [v for v in range(CTX.net.n) if base[v] is None and (V is None or v in V)]


def gspace(nctx, d):
    """space dict over the names of the (sub)network -> global subspace tuple refining base.
    Values for variables fixed in base are dropped if equal, conflict -> None."""
    net = CTX.net
    base = nctx[0]
    S = list(base)
    for k, v in d.items():
        if k not in net.names:
            raise Unmodelled(f"unknown variable {k}")
        i = net.names.index(k)
        if S[i] is None:
            S[i] = int(v)
        elif S[i] != int(v):
            return None
    return tuple(S)


def rawspace(d):
    net = CTX.net
    return tuple((int(d[nm]) if nm in d else None) for nm in net.names)


def fault_point(region):
    """fault injection (C15): the k-th region call raises instead of returning; k may be symbolic"""
    at = FAULT["at"]
    if at is None or region not in FAULT["regions"]:
        return
    FAULT["count"] += 1
    if at == FAULT["count"]:
        FAULT["fired"] = region
        raise RuntimeError(f"injected solver failure in {region} (call {FAULT['count']})")


def order(lst, key=None):
    key = key or (lambda d: sorted(d.items()))
    if LIST_ORDER == "real":
        return lst
    out = sorted(lst, key=key)
    if LIST_ORDER == "reversed":
        out.reverse()
    return out


# ----------------------------------------------------------------------------- proxies
class Proxy:
    _ALLOW = ()
    _kind = "proxy"

    def __init__(self, real, nctx):
        object.__setattr__(self, "_real", real)
        object.__setattr__(self, "_nctx", nctx)

    def __getattr__(self, name):
        real = object.__getattribute__(self, "_real")
        if CTX.opaque > 0 or not CTX.active:
            attr = getattr(real, name)
            if callable(attr):
                def call(*a, **k):
                    return attr(*unwrap(list(a)), **{kk: unwrap(vv) for kk, vv in k.items()})
                return call
            return attr
        if name in self._ALLOW:
            attr = getattr(real, name)
            if callable(attr):
                def call(*a, **k):
                    return attr(*unwrap(list(a)), **{kk: unwrap(vv) for kk, vv in k.items()})
                return call
            return attr
        raise Unmodelled(f"{self._kind}.{name} is not on the audited list")

    def __reduce__(self):
        return (type(self), (object.__getattribute__(self, "_real"), object.__getattribute__(self, "_nctx")))

    def __copy__(self):
        import copy
        return type(self)(copy.copy(object.__getattribute__(self, "_real")), object.__getattribute__(self, "_nctx"))

    def __str__(self):
        return str(object.__getattribute__(self, "_real"))

    __repr__ = __str__


def concretise_reg(nctx, targets=None):
    """pin the signed regulatory graph of the denoted network (essentiality + sign witnesses)"""
    net = CTX.net
    base = nctx[0]
    vs = netvars(nctx)
    for v in (vs if targets is None else targets):
        for u in vs:
            p, q = net.reg(u, v, base)
            CTX.obs(p)
            CTX.obs(q)


class NetProxy(Proxy):
    """biodivine_aeon.BooleanNetwork handle.  Its variable set and names are determined by the context."""
    _kind = "BooleanNetwork"
    _ALLOW = ("variable_count", "variables", "get_variable_name", "variable_names", "find_variable",
              "explicit_parameter_count", "explicit_parameter_names", "to_bnet")

    def to_aeon(self):
        real = object.__getattribute__(self, "_real")
        txt = real.to_aeon()
        AEON_TEXT[txt] = object.__getattribute__(self, "_nctx")
        return txt

    def implicit_parameters(self):
        real = object.__getattribute__(self, "_real")
        r = real.implicit_parameters()
        if CTX.opaque == 0 and CTX.active and len(r) > 0:
            raise Unmodelled("network with implicit parameters (free inputs) reached the coarse proxies")
        return r

    def predecessors(self, v):
        real = object.__getattribute__(self, "_real")
        if CTX.opaque == 0 and CTX.active:
            nctx = object.__getattribute__(self, "_nctx")
            name = real.get_variable_name(v)
            concretise_reg(nctx, [CTX.net.names.index(name)])
        return real.predecessors(v)

    def backward_reachable(self, vs):
        real = object.__getattribute__(self, "_real")
        if CTX.opaque == 0 and CTX.active:
            concretise_reg(object.__getattribute__(self, "_nctx"))
        return real.backward_reachable(unwrap(vs))

    def _whole_graph(name):
        def m(self, *a, **k):
            real = object.__getattribute__(self, "_real")
            if CTX.opaque == 0 and CTX.active:
                concretise_reg(object.__getattribute__(self, "_nctx"))
            return getattr(real, name)(*[unwrap(x) for x in a], **k)
        m.__name__ = name
        return m
    # queries about the (semantic = inferred) regulatory graph: answered by the real object after the signed graph of
    # the denoted network has been pinned
    successors = _whole_graph("successors")
    forward_reachable = _whole_graph("forward_reachable")
    regulations = _whole_graph("regulations")
    find_regulation = _whole_graph("find_regulation")
    regulation_count = _whole_graph("regulation_count")
    del _whole_graph

    def _syntactic(name):
        def m(self, *a, **k):
            real = object.__getattribute__(self, "_real")
            if CTX.opaque == 0 and CTX.active:
                # a question about the WRITTEN form of the update functions (no functional contract over the dynamics):
                # the answer is a function of the text the harness rendered from the truth table, so the whole table of
                # this network is pinned - the class shrinks to the networks with these functions
                nctx = object.__getattribute__(self, "_nctx")
                net = CTX.net
                base = nctx[0]
                for v in netvars(nctx):
                    for x in net.states:
                        if all(b is None or x[i] == b for i, b in enumerate(base)):
                            CTX.obs(net.fval(v, x))
            return getattr(real, name)(*[unwrap(x) for x in a], **k)
        m.__name__ = name
        return m
    input_names = _syntactic("input_names")
    inputs = _syntactic("inputs")
    get_update_function = _syntactic("get_update_function")
    del _syntactic

    def strongly_connected_components(self, *a, **k):
        real = object.__getattribute__(self, "_real")
        if CTX.opaque == 0 and CTX.active:
            concretise_reg(object.__getattribute__(self, "_nctx"))
        return real.strongly_connected_components(*a, **k)

    def drop(self, to_remove):
        real = object.__getattribute__(self, "_real")
        nctx = object.__getattribute__(self, "_nctx")
        r = real.drop(to_remove)
        if not (CTX.active):
            return r
        net = CTX.net
        rm = {net.names.index(x if isinstance(x, str) else real.get_variable_name(x)) for x in to_remove}
        keep = frozenset(v for v in netvars(nctx) if v not in rm)
        # the sub-network is well defined only if nothing kept is regulated by something removed
        ok = True
        for v in keep:
            for u in rm:
                if nctx[0][u] is None:
                    p, q = net.reg(u, v, nctx[0])
                    if CTX.obs(p) or CTX.obs(q):
                        ok = False
        if not ok and CTX.opaque == 0:
            raise Unmodelled("drop() of a regulator of a kept variable")
        return NetProxy(r, (nctx[0], keep))


AEON_TEXT = {}
VALIDATE_TABLES = True


def validate_tables(real_bn, nctx, region):
    """per-representative translation validation of a network handle produced by AEON (from_aeon / from_sbml /
    percolate_network): every update function of the real object, evaluated on every state of its context, must
    equal the representative's truth table restricted to the context's base space"""
    if not VALIDATE_TABLES:
        return
    net = CTX.net
    base = nctx[0]
    try:
        names = list(real_bn.variable_names())
        if not names:
            return
        g = REAL["AsynchronousGraph"](real_bn)
        idx = [net.names.index(nm) for nm in names]
        for nm, v in zip(names, idx):
            if base[v] is not None:
                continue        # a variable fixed in the base space: its function is the constant (or the dynamics' verdict on a conflict)
            free_input = real_bn.get_update_function(nm) is None       # no update function: biobalm reads it as "never changes"
            f = None if free_input else g.mk_update_function(nm)
            for vals in itertools.product((0, 1), repeat=len(names)):
                x = [0 if b is None else b for b in base]
                skip = False
                for i, b in zip(idx, vals):
                    if base[i] is not None and base[i] != b:
                        skip = True
                        break
                    x[i] = b
                if skip:
                    continue
                val = bool(x[v]) if free_input else bool(f.r_restrict(dict(zip(names, vals))).is_true())
                if CTX.ev(net.fval(v, tuple(x))) != val:
                    CTX.mismatch.append((region, f"update function of {nm} differs from the network's in state {tuple(x)}"))
                    return
    except Unmodelled:
        raise
    except Exception as e:      # a network AEON cannot turn into a graph: leave it to the caller
        CTX.log.append(("validate_tables", repr(e)))


class FnProxy:
    """Bdd of an update function of a (percolated) network, possibly restricted to a subspace:
    only the uses on the audited list"""

    def __init__(self, real, nctx, v, neg=False, restr=None):
        self._real, self._nctx, self._v, self._neg = real, nctx, v, neg
        self._restr = restr if restr is not None else nctx[0]

    def cardinality(self):
        c = self._real.cardinality()
        if CTX.opaque > 0 or not CTX.active:
            return c
        if self._restr != self._nctx[0]:
            raise Unmodelled("cardinality of a restricted update function")
        e = CTX.net.count_true(self._v, self._nctx[0], negate=self._neg)
        # the BDD lives over the variables of the percolated network only
        nfree = sum(1 for s in self._nctx[0] if s is None)
        scale = 2 ** (nfree - len(netvars(self._nctx)))
        if scale != 1:
            e = e / scale
        if CTX.ev_int(e) != c:
            CTX.mismatch.append(("Bdd.cardinality", (self._v, c)))
        return SymInt(e)

    def l_not(self):
        return FnProxy(self._real.l_not(), self._nctx, self._v, not self._neg, self._restr)

    def r_restrict(self, state):
        r = self._real.r_restrict(state)
        if CTX.opaque > 0 or not CTX.active:
            return r
        if not all(isinstance(k, str) for k in state):
            raise Unmodelled("r_restrict with non-name keys on an update function")
        sp = meet(self._restr, rawspace({k: int(v) for k, v in state.items()}))
        if sp is None:
            # restricting by a value that contradicts the current restriction cannot happen for a BDD
            # (the variable is already eliminated): the later value is ignored
            sp = tuple(a if a is not None else b for a, b in zip(self._restr, rawspace({k: int(v) for k, v in state.items()})))
        return FnProxy(r, self._nctx, self._v, self._neg, sp)

    def is_true(self):
        return self._const(1)

    def is_false(self):
        return self._const(0)

    def _const(self, b):
        r = self._real.is_true() if b else self._real.is_false()
        if CTX.opaque > 0 or not CTX.active:
            return r
        bb = (1 - b) if self._neg else b
        return CTX.obs_eq(CTX.net.const_on(self._v, bb, self._restr), r, "Bdd.is_const", self._v)

    _posmap = {}

    def __call__(self, valuation):
        r = self._real(valuation)
        if CTX.opaque > 0 or not CTX.active:
            return r
        net = CTX.net
        base = self._restr
        # (hot path of the simulation minification: millions of calls, few distinct bits)
        pos = self.__dict__.get("_pos")
        if pos is None:
            pos = self.__dict__["_pos"] = {}
        x = [0 if s is None else s for s in base]
        for var, val in valuation.items():
            i = pos.get(var)
            if i is None:
                i = pos[var] = net.names.index(self._real.__ctx__().get_variable_name(var))
            x[i] = 1 if val else 0
        x = tuple(x)
        key = ("call", self._v, self._neg, x, bool(r))
        if key in CTX.seen:
            return r
        CTX.seen.add(key)
        f = net.fval(self._v, x)
        if self._neg:
            f = fNot(f)
        return CTX.obs_eq(f, r, "Bdd.__call__", (self._v, x))

    def __getattr__(self, name):
        if CTX.opaque > 0 or not CTX.active:
            return getattr(self._real, name)
        raise Unmodelled(f"Bdd(update function).{name} is not on the audited list")


class GraphProxy(Proxy):
    _kind = "AsynchronousGraph"
    _ALLOW = ("network_variable_names", "symbolic_context", "network_variables", "find_network_variable",
              "get_network_variable_name", "mk_subspace", "mk_empty_colored_vertices", "network_variable_count")

    def mk_update_function(self, var):
        real = object.__getattribute__(self, "_real")
        r = real.mk_update_function(var)
        if CTX.opaque > 0 or not CTX.active:
            return r
        name = var if isinstance(var, str) else real.get_network_variable_name(var)
        return FnProxy(r, object.__getattribute__(self, "_nctx"), CTX.net.names.index(name))

    def reconstruct_network(self):
        real = object.__getattribute__(self, "_real")
        r = real.reconstruct_network()
        if CTX.opaque > 0 or not CTX.active:
            return r
        return NetProxy(r, object.__getattribute__(self, "_nctx"))


def _untracked(o):
    """a real library object / untagged Petri net: we are inside a region (or a caller bypassed the audited
    path with real objects, which carry no symbolic information): pass through"""
    if isinstance(o, Proxy):
        return False
    if isinstance(o, nx.DiGraph):
        return o.graph.get("verif_nctx") is None and o.number_of_nodes() > 0
    return True


def _mk_graph(network, *a, **k):
    real = REAL["AsynchronousGraph"](unwrap(network), *a, **k)
    if not CTX.active or CTX.opaque > 0 or _untracked(network):
        return real
    return GraphProxy(real, nctx_of(network))


class _GraphFacadeMeta(type):
    """the name `AsynchronousGraph` inside biobalm: calling it builds an audited handle, isinstance() against it
    accepts real graphs and handles alike (library code may test the type of its argument)"""

    def __call__(cls, network, *a, **k):
        return _mk_graph(network, *a, **k)

    def __instancecheck__(cls, o):
        return isinstance(unwrap(o), REAL["AsynchronousGraph"])

    def __getattr__(cls, name):
        return getattr(REAL["AsynchronousGraph"], name)


class w_AsynchronousGraph(metaclass=_GraphFacadeMeta):
    pass


class _BNFacade:
    """stands in for the name `BooleanNetwork` inside biobalm.succession_diagram"""

    def __call__(self, *a, **k):
        r = REAL["BooleanNetwork"](*a, **k)
        if not CTX.active:
            return r
        if len(a) == 0 and not k:
            return r   # empty network (fixed-point node)
        raise Unmodelled("BooleanNetwork constructor")

    def __instancecheck__(self, o):
        return isinstance(unwrap(o), REAL["BooleanNetwork"])

    @staticmethod
    def from_bnet(text):
        r = REAL["BooleanNetwork"].from_bnet(text)
        if not CTX.active or CTX.opaque > 0:
            return r
        net = CTX.net
        names = list(r.variable_names())
        if any(nm not in net.names for nm in names):
            raise Unmodelled("network over variables that are not part of the symbolic network")
        if set(names) == set(net.names):
            if any(r.get_update_function(nm) is None for nm in names):
                validate_tables(r, ((None,) * net.n, None), "from_bnet (free inputs)")
            return NetProxy(r, ((None,) * net.n, None))
        # a part of the symbolic network (its variables must be backward-closed: checked by the caller's family)
        return NetProxy(r, ((None,) * net.n, frozenset(net.names.index(nm) for nm in names)))

    @staticmethod
    def from_aeon(text):
        r = REAL["BooleanNetwork"].from_aeon(text)
        if not CTX.active or CTX.opaque > 0:
            return r
        if text not in AEON_TEXT:
            raise Unmodelled("from_aeon on text that was not produced by to_aeon in this run")
        validate_tables(r, AEON_TEXT[text], "from_aeon")
        return NetProxy(r, AEON_TEXT[text])

    @staticmethod
    def from_sbml(text):
        r = REAL["BooleanNetwork"].from_sbml(text)
        if not CTX.active or CTX.opaque > 0:
            return r
        if "sbml:" + text not in AEON_TEXT:
            raise Unmodelled("from_sbml on text that was not registered by the harness")
        validate_tables(r, AEON_TEXT["sbml:" + text], "from_sbml")
        return NetProxy(r, AEON_TEXT["sbml:" + text])

    @staticmethod
    def from_file(path):
        raise Unmodelled("from_file")


def wrap_network(real_bn):
    """a BooleanNetwork OBJECT built by the harness through the API (any declaration order) -> audited handle for the
    whole symbolic network; its functions are validated against the representative's truth table"""
    if not CTX.active or CTX.opaque > 0:
        return real_bn
    net = CTX.net
    if set(real_bn.variable_names()) != set(net.names):
        raise Unmodelled("wrap_network: other variables than the symbolic network")
    validate_tables(real_bn, ((None,) * net.n, None), "network object")
    return NetProxy(real_bn, ((None,) * net.n, None))


class BNFacadeMeta(type):
    def __instancecheck__(cls, o):
        return isinstance(unwrap(o), REAL["BooleanNetwork"])


class BNFacade(metaclass=BNFacadeMeta):
    def __new__(cls, *a, **k):
        r = REAL["BooleanNetwork"](*a, **k)
        if CTX.active and CTX.opaque == 0:
            if a or k:
                raise Unmodelled("BooleanNetwork constructor")
            return NetProxy(r, ((0,) * CTX.net.n, frozenset()))
        return r
    from_bnet = _BNFacade.from_bnet
    from_aeon = _BNFacade.from_aeon
    from_sbml = _BNFacade.from_sbml
    from_file = _BNFacade.from_file


# ----------------------------------------------------------------------------- region oracles
def w_cleanup_network(network):
    if not CTX.active or CTX.opaque > 0 or _untracked(network):
        return REAL["cleanup_network"](unwrap(network))
    CTX.opaque += 1          # a region: whatever it does to the network object, its result must denote the same network
    try:
        r = REAL["cleanup_network"](unwrap(network))
    finally:
        CTX.opaque -= 1
    nctx = nctx_of(network)
    validate_tables(r, nctx, "cleanup_network")
    return NetProxy(r, nctx)


def w_network_to_petrinet(network, symbolic_context=None):
    pn = REAL["network_to_petrinet"](unwrap(network), symbolic_context)
    if CTX.active and CTX.opaque == 0 and not _untracked(network):
        nctx = nctx_of(network)
        pn.graph["verif_nctx"] = (tuple(nctx[0]), None if nctx[1] is None else tuple(sorted(nctx[1])))
    return pn


def w_restrict_petrinet(petri_net, sub_space):
    r = REAL["restrict_petrinet_to_subspace"](petri_net, sub_space)
    if CTX.active and CTX.opaque == 0 and not _untracked(petri_net) and petri_net.number_of_nodes() > 0:
        nctx = nctx_of(petri_net)
        nv = netvars(nctx)
        base = list(nctx[0])
        for k, v in sub_space.items():
            i = CTX.net.names.index(k)
            if i in nv:
                base[i] = int(v)
        r.graph["verif_nctx"] = (tuple(base), None if nctx[1] is None else tuple(sorted(nctx[1])))
    return r


def w_extract_source_variables(pn):
    r = REAL["extract_source_variables"](pn)
    if CTX.active and CTX.opaque == 0 and not _untracked(pn) and pn.number_of_nodes() > 0:
        nctx = nctx_of(pn)
        net = CTX.net
        for v in netvars(nctx):
            CTX.obs_eq(net.is_source(v, nctx[0]), net.names[v] in r, "extract_source_variables", v)
    return r


def w_source_nodes(network, ctx=None):
    r = REAL["source_nodes"](unwrap(network), ctx)
    if CTX.active and CTX.opaque == 0 and not _untracked(network):
        nctx = nctx_of(network)
        net = CTX.net
        for v in netvars(nctx):
            CTX.obs_eq(net.is_source(v, nctx[0]), net.names[v] in r, "source_nodes", v)
    return r


def w_source_SCCs(bn):
    if CTX.active and CTX.opaque == 0 and not _untracked(bn):
        concretise_reg(nctx_of(bn))
    return REAL["source_SCCs"](unwrap(bn))


def w_feedback_vertex_set(network, parity=None, subgraph=None):
    if CTX.active and CTX.opaque == 0:
        if isinstance(network, Proxy):
            concretise_reg(nctx_of(network))
    return REAL["feedback_vertex_set"](unwrap(network), parity, subgraph)


def w_percolate_space(network, space):
    if CTX.opaque == 0:
        fault_point("percolate_space")
    r = REAL["percolate_space"](unwrap(network), space)
    if CTX.active and CTX.opaque == 0 and not _untracked(network):
        nctx = nctx_of(network)
        net = CTX.net
        base, V = nctx
        if V is not None or any(b is not None for b in base):
            # sub-network: variables outside are absent; evaluate relative to base
            S = gspace(nctx, space)
            R = gspace(nctx, r)
            if S is None or R is None:
                raise Unmodelled("percolate_space: space conflicts with the context")
            # only variables of the sub-network can be newly fixed
            if any(R[v] is not None and S[v] is None and v not in netvars(nctx) for v in range(net.n)):
                CTX.mismatch.append(("percolate_space", "fixed a variable outside the network"))
            CTX.add_pc(_perc_rel(S, R, nctx), "percolate_space", (space, r))
        else:
            S = rawspace(space)
            R = rawspace(r)
            CTX.add_pc(net.perc_eq(S, R), "percolate_space", (space, r))
    return r


def _perc_rel(S, R, nctx):
    """PERC within a sub-network context: only its variables propagate"""
    net = CTX.net
    nv = netvars(nctx)
    if not refines(R, S):
        return net.FALSE
    closed = [z3.Not(net.const_on(v, b, R)) for v in nv if R[v] is None for b in (0, 1)]
    new = [v for v in nv if S[v] is None and R[v] is not None]
    alts = []
    for perm in itertools.permutations(new):
        cur = list(S)
        cs = []
        for v in perm:
            cs.append(net.const_on(v, R[v], tuple(cur)))
            cur[v] = R[v]
        alts.append(net.And(cs))
    return net.And(closed + ([net.Or(alts)] if new else []))


def w_percolate_network(bn, space, symbolic_network=None, remove_constants=False):
    r = REAL["percolate_network"](unwrap(bn), space, unwrap(symbolic_network), remove_constants)
    if not CTX.active or CTX.opaque > 0 or _untracked(bn):
        return r
    nctx = nctx_of(bn)
    net = CTX.net
    S = gspace(nctx, space)
    if S is None:
        raise Unmodelled("percolate_network: conflicting space")
    # the percolated space (computed inside by percolate_space on the real graph) is observed here
    rnames = set(r.variable_names())
    if remove_constants:
        # variables of the result = free variables of PERC(S) within the network
        R = list(S)
        for v in netvars(nctx):
            if net.names[v] not in rnames and R[v] is None:
                # value: read from the real percolation
                pass
        real_sym = unwrap(symbolic_network) if symbolic_network is not None else REAL["AsynchronousGraph"](unwrap(bn))
        pr = REAL["percolate_space"](real_sym, space)
        Rg = gspace(nctx, pr)
        if Rg is None:
            raise Unmodelled("percolate_network: conflicting percolation")
        if nctx[1] is None and all(b is None for b in nctx[0]):
            CTX.add_pc(net.perc_eq(rawspace(space), rawspace(pr)), "percolate_network", space)
        else:
            CTX.add_pc(_perc_rel(S, Rg, nctx), "percolate_network", space)
        expect = {net.names[v] for v in netvars(nctx) if Rg[v] is None}
        if expect != rnames:
            CTX.mismatch.append(("percolate_network", f"variables {sorted(rnames)} != free variables {sorted(expect)}"))
        validate_tables(r, (Rg, nctx[1]), "percolate_network")
        return NetProxy(r, (Rg, nctx[1]))
    else:
        real_sym = unwrap(symbolic_network) if symbolic_network is not None else REAL["AsynchronousGraph"](unwrap(bn))
        pr = REAL["percolate_space"](real_sym, space)
        Rg = gspace(nctx, pr)
        if nctx[1] is None and all(b is None for b in nctx[0]):
            CTX.add_pc(net.perc_eq(rawspace(space), rawspace(pr)), "percolate_network", space)
        else:
            CTX.add_pc(_perc_rel(S, Rg, nctx), "percolate_network", space)
        # constants stay as variables: context keeps all variables but functions are restricted to Rg;
        # we model it as the network restricted to Rg where fixed variables are constant -> only
        # source_nodes() is asked of it (SCC expansion), which reads f restricted to Rg.
        return NetProxy(r, (Rg, nctx[1]))


def _spaces_to_global(nctx, lst):
    out = []
    for d in lst:
        g = gspace(nctx, d)
        if g is None:
            raise Unmodelled("answer conflicts with context")
        out.append(g)
    return out


def w_trappist(network, problem="min", reverse_time=False, solution_limit=None, ensure_subspace=None,
               avoid_subspaces=None, optimize_source_variables=None):
    if CTX.opaque == 0:
        fault_point("trappist")
    if not CTX.active or CTX.opaque > 0 or _untracked(network):
        return REAL["trappist"](unwrap(network), problem=problem, reverse_time=reverse_time, solution_limit=solution_limit,
                                ensure_subspace=ensure_subspace, avoid_subspaces=avoid_subspaces,
                                optimize_source_variables=optimize_source_variables)
    if isinstance(network, nx.DiGraph) and network.number_of_nodes() == 0:
        # the empty net of a fixed-point node: the answer depends on the arguments only
        return REAL["trappist"](network, problem=problem, reverse_time=reverse_time, solution_limit=solution_limit if not isinstance(solution_limit, SymInt) else None,
                                ensure_subspace=ensure_subspace, avoid_subspaces=avoid_subspaces,
                                optimize_source_variables=optimize_source_variables)
    nctx = nctx_of(network, ensure_subspace)
    if reverse_time and (nctx[1] is not None or any(b is not None for b in nctx[0])):
        raise Unmodelled("trappist(reverse_time=True) on a restricted network")
    net = CTX.net
    lim = solution_limit
    lim_c = None
    if lim is not None:
        lim_c = CTX.ev_int(lim.e) if isinstance(lim, SymInt) else int(lim)
    # the full answer of the real region (limit applied by us so that the canonical order resolution is exact)
    full = REAL["trappist"](unwrap(network), problem=problem, reverse_time=reverse_time, solution_limit=None,
                            ensure_subspace=ensure_subspace, avoid_subspaces=avoid_subspaces,
                            optimize_source_variables=optimize_source_variables)
    ens = gspace(nctx, {k: v for k, v in (ensure_subspace or {}).items()})
    if ens is None:
        raise Unmodelled("trappist: ensure_subspace conflicts with the context")
    nv = netvars(nctx)
    if optimize_source_variables is None:
        srcs = None   # the region derives them from the net: identity functions
    else:
        srcs = tuple(net.names.index(s) for s in optimize_source_variables if net.names.index(s) in nv)
    avoid = tuple(rawspace(a) for a in (avoid_subspaces or []))
    if srcs is None and problem != "max":
        srcs = ()
    if srcs is None:
        srcs_obs = []
        for v in nv:
            is_src = CTX.obs(net.is_source(v, nctx[0]))
            if is_src:
                srcs_obs.append(v)
        srcs = tuple(srcs_obs)
    ens_rel = tuple(None if nctx[0][i] is not None else ens[i] for i in range(net.n))
    got = set(_spaces_to_global(nctx, full))
    if len(got) != len(full):
        CTX.mismatch.append(("trappist", "duplicate answers"))
    if hasattr(net, "trappist_obs") and nctx[1] is None and not avoid and problem in ("min", "max") and not reverse_time:
        # modular network: the answer set is observed component-wise (products of component answers)
        obs, bad = net.trappist_obs(problem, nctx[0], ens_rel, srcs if problem == "max" else (), sorted(got, key=str))
        for b in bad:
            CTX.mismatch.append(("trappist", b))
        for fm, val, detail in obs:
            CTX.obs_eq(fm, val, "trappist", (problem, detail))
    else:
        spec = net.trappist_spec(problem, nctx[0], nctx[1], ens_rel, srcs if problem == "max" else (), avoid, reverse=bool(reverse_time))
        for M, fm in spec.items():
            CTX.obs_eq(fm, M in got, "trappist", (problem, M))
        for M in got:
            if M not in spec:
                CTX.mismatch.append(("trappist", f"answer {M} outside the candidate set"))
    res = order(full)
    if lim is not None:
        def real_len(k):
            return len(REAL["trappist"](unwrap(network), problem=problem, reverse_time=reverse_time, solution_limit=k,
                                        ensure_subspace=ensure_subspace, avoid_subspaces=avoid_subspaces,
                                        optimize_source_variables=optimize_source_variables))
        res = _truncate(res, lim, real_len, "trappist")
    return res


def _truncate(res, lim, real_len, region):
    """apply a solution limit the way the real region does (its truncation length is measured, not assumed);
    classes merge all symbolic limits that do not truncate"""
    if isinstance(lim, SymInt):
        if lim >= len(res):
            k = None
        else:
            k = lim.concrete()
    else:
        k = int(lim) if int(lim) < len(res) else None
    if k is None:
        return res
    n = real_len(k)
    if n > len(res) or n > max(k, 0) + 1:
        CTX.mismatch.append((region, f"limit {k} returned {n} answers"))
    return res[:n]


def w_rfp(petri_net, retained_set={}, ensure_subspace={}, avoid_subspaces=[], solution_limit=None):
    if CTX.opaque == 0:
        fault_point("compute_fixed_point_reduced_STG")
    if not CTX.active or CTX.opaque > 0 or _untracked(petri_net):
        return REAL["compute_fixed_point_reduced_STG"](petri_net, retained_set, ensure_subspace=ensure_subspace,
                                                       avoid_subspaces=avoid_subspaces, solution_limit=solution_limit)
    if petri_net.number_of_nodes() == 0:
        return REAL["compute_fixed_point_reduced_STG"](petri_net, retained_set, ensure_subspace=ensure_subspace,
                                                       avoid_subspaces=avoid_subspaces, solution_limit=None)
    nctx = nctx_of(petri_net)
    net = CTX.net
    full = REAL["compute_fixed_point_reduced_STG"](petri_net, retained_set, ensure_subspace=ensure_subspace,
                                                   avoid_subspaces=avoid_subspaces, solution_limit=None)
    nv = netvars(nctx)
    ret = {}
    for k, v in retained_set.items():
        i = net.names.index(k)
        if i in nv:
            ret[i] = int(v)
    ens = gspace(nctx, dict(ensure_subspace or {}))
    if ens is None:
        raise Unmodelled("rfp: ensure conflicts with context")
    ens_rel = tuple(None if nctx[0][i] is not None else ens[i] for i in range(net.n))
    avoid = []
    for a in (avoid_subspaces or []):
        avoid.append(rawspace({k: v for k, v in a.items()}))
    spec = net.rfp_spec(nctx[0], nctx[1], ret, ens_rel, tuple(avoid))
    got = set(_spaces_to_global(nctx, full))
    if len(got) != len(full):
        CTX.mismatch.append(("rfp", "duplicate answers"))
    for y, f in spec.items():
        CTX.obs_eq(f, y in got, "rfp", y)
    for y in got:
        if y not in spec:
            CTX.mismatch.append(("rfp", f"answer {y} outside the candidate set"))
    res = order(full)
    if solution_limit is not None:
        def real_len(k):
            return len(REAL["compute_fixed_point_reduced_STG"](petri_net, retained_set, ensure_subspace=ensure_subspace,
                                                               avoid_subspaces=avoid_subspaces, solution_limit=k))
        res = _truncate(res, solution_limit, real_len, "rfp")
    return res


def w_compute_attractors_symbolic(sd, node_id, candidate_states, seeds_only=False):
    """region oracle: the answer is specified through REACH over the global network:
    candidate i is a seed iff its forward closure meets neither a child motif, nor a later candidate,
    nor an earlier *accepted* candidate's closure (DESIGN §6 C12)."""
    if not CTX.active or CTX.opaque > 0:
        return REAL["compute_attractors_symbolic"](sd, node_id, candidate_states, seeds_only)
    net = CTX.net
    from . import fine
    if fine.ENABLED["on"]:
        nctx0 = nctx_of(sd.network)
        if nctx0[1] is None and all(b is None for b in nctx0[0]):
            # fine mode: the real function runs on vertex sets with a symbolic denotation (no region oracle)
            seeds, real_sets, symsets = fine.fine_compute_attractors_symbolic(sd, node_id, candidate_states, seeds_only)
            CTX.symsets.append({"node": node_id, "seeds": [net.state_of(s) for s in seeds], "sets": symsets,
                                "candidates": [net.state_of(c) for c in candidate_states]})
            return seeds, real_sets
    CTX.opaque += 1
    try:
        seeds, sets = REAL["compute_attractors_symbolic"](sd, node_id, candidate_states, seeds_only)
    finally:
        CTX.opaque -= 1
    node = sd.node_data(node_id)
    nctx = nctx_of(sd.network)
    base = nctx[0]
    nv = netvars(nctx)
    others = [v for v in range(net.n) if base[v] is None and v not in nv]
    space = gspace(nctx, node["space"])
    if space is None:
        raise Unmodelled("node space conflicts with the network context")
    override = base if any(b is not None for b in base) else None
    motifs = []
    if node["expanded"]:
        for c in sd.dag.successors(node_id):
            motifs.append(gspace(nctx, sd.edge_stable_motif(node_id, c)))

    def lift(d):
        """state of the (sub)network -> global state (outside variables read as 0)"""
        x = [0 if b is None else b for b in base]
        for k, v in d.items():
            x[net.names.index(k)] = int(v)
        return tuple(x)

    def fibre(x):
        """all global states that agree with x on the network's variables"""
        out = []
        for vals in itertools.product((0, 1), repeat=len(others)):
            y = list(x)
            for v, b in zip(others, vals):
                y[v] = b
            out.append(tuple(y))
        return out

    def sub_reach(x, y):
        return net.Or([net.reach(x, y2, override) for y2 in fibre(y)])
    sub_states = []
    for vals in itertools.product((0, 1), repeat=len(nv)):
        x = [0 if b is None else b for b in base]
        for v, b in zip(nv, vals):
            x[v] = b
        x = tuple(x)
        if in_space(x, tuple(None if i in others else space[i] for i in range(net.n))):
            sub_states.append(x)
    cands = [lift(c) for c in candidate_states]
    seedset = [lift(s) for s in seeds]
    pseudo_min = len(motifs) == 0
    accepted = []
    for i, c in enumerate(cands):
        if seeds_only and pseudo_min and i == len(cands) - 1 and not any(a for _, a in accepted):
            break   # the code returns the last candidate unchecked; no observation
        later = cands[i + 1:]
        hit = []
        for y in sub_states:
            if any(in_space(y, tuple(None if k in others else m[k] for k in range(net.n))) for m in motifs) or y in later:
                hit.append(sub_reach(c, y))
        for (a, acc) in accepted:
            if acc:
                for z in sub_states:
                    hit.append(z3.And(sub_reach(c, z), sub_reach(a, z)))
        is_seed = c in seedset
        CTX.obs_eq(fNot(net.Or(hit)), is_seed, "compute_attractors_symbolic", c)
        accepted.append((c, is_seed))
    if sets is not None and not others and override is None:
        # the returned sets are opaque handles for biobalm; their content is validated against the forward
        # closure of the seed (C12) - an observation, so a wrong set is reported at this representative
        if len(sets) != len(seeds):
            CTX.mismatch.append(("attractor_sets", "number of sets differs from number of seeds"))
        for sdict, vs in zip(seeds, sets):
            sx = lift(sdict)
            got = _vertex_states(sd, vs)
            for y in net.states:
                CTX.obs_eq(net.reach(sx, y), y in got, "attractor_sets", (sx, y))
    return seeds, sets


def _vertex_states(sd, vs):
    """explicit content of a VertexSet over all network variables"""
    net = CTX.net
    real_net = unwrap(sd.network)
    pos = {v: net.names.index(real_net.get_variable_name(v)) for v in real_net.variables()}
    out = set()
    for vert in vs.items():
        d = vert.to_dict()
        x = [0] * net.n
        for v, i in pos.items():
            x[i] = int(d[v])
        out.add(tuple(x))
    return out


def w_symbolic_attractor_fallback(sd, node_id):
    """region oracle for the fully symbolic fallback: (seeds, sets) are validated against the definition on the
    representative: the sets are exactly the attractors of the node that are not inside a successor space
    (for skip nodes: at least sound), each seed lies in its set"""
    if not CTX.active or CTX.opaque > 0:
        return REAL["symbolic_attractor_fallback"](sd, node_id)
    net = CTX.net
    CTX.opaque += 1
    try:
        seeds, sets = REAL["symbolic_attractor_fallback"](sd, node_id)
    finally:
        CTX.opaque -= 1
    nctx = nctx_of(sd.network)
    if nctx[1] is not None or any(b is not None for b in nctx[0]):
        raise Unmodelled("symbolic fallback on a sub-network diagram")
    node = sd.node_data(node_id)
    space = rawspace(node["space"])
    kids = [rawspace(sd.node_data(c)["space"]) for c in sd.dag.successors(node_id)] if node["expanded"] else []
    contents = [_vertex_states(sd, vs) for vs in sets]
    if len(seeds) != len(sets):
        CTX.mismatch.append(("fallback", "number of sets differs from number of seeds"))
    union = set().union(*contents) if contents else set()
    for sdict, got in zip(seeds, contents):
        sx = net.state_of(sdict)
        if sx not in got:
            CTX.mismatch.append(("fallback", f"seed {sx} not in its set"))
        for y in net.states:
            CTX.obs_eq(net.reach(sx, y), y in got, "fallback_set", (sx, y))
        CTX.obs_eq(net.attr(sx), True, "fallback_seed_attr", sx)
    if not node["skipped"]:
        for y in net.states:
            if in_space(y, space) and not any(in_space(y, k) for k in kids):
                CTX.obs_eq(net.attr(y), y in union, "fallback_cover", y)
    return seeds, sets


class UnwrapStatic:
    """native namespaces (Attractors, Reachability) used inside opaque regions: arguments are unwrapped;
    outside a region they are not on the audited list"""

    def __init__(self, real, name):
        self._real, self._name = real, name

    def __getattr__(self, attr):
        f = getattr(self._real, attr)
        if CTX.active and CTX.opaque == 0:
            raise Unmodelled(f"{self._name}.{attr} outside an opaque region")

        def call(*a, **k):
            return f(*unwrap(list(a)), **{kk: unwrap(vv) for kk, vv in k.items()})
        return call


def _orig(name):
    """the library function `name` from the module that defines it (a refactoring of the importing modules - an
    import dropped from succession_diagram.py, say - must not break the installation of the oracles)"""
    import importlib
    for m in ("trappist_core", "space_utils", "petri_net_translation", "interaction_graph_utils",
              "_sd_attractors.attractor_candidates", "_sd_attractors.attractor_symbolic",
              "_sd_algorithms.expand_source_blocks", "succession_diagram"):
        try:
            mod = importlib.import_module("biobalm." + m)
        except Exception:
            continue
        f = vars(mod).get(name)
        if f is not None and getattr(f, "__module__", "").endswith(m.split(".")[-1]):
            return f
    for mod in _biobalm_modules():
        if name in vars(mod):
            return vars(mod)[name]
    raise Unmodelled(f"library function {name} not found")


def install():
    if _PATCHED:
        return
    patch_all(ba.Attractors, UnwrapStatic(ba.Attractors, "Attractors"), "Attractors")
    patch_all(ba.Reachability, UnwrapStatic(ba.Reachability, "Reachability"), "Reachability")
    patch_all(_orig("trappist"), w_trappist, "trappist")
    patch_all(_orig("percolate_space"), w_percolate_space, "percolate_space")
    patch_all(_orig("percolate_network"), w_percolate_network, "percolate_network")
    patch_all(_orig("network_to_petrinet"), w_network_to_petrinet, "network_to_petrinet")
    patch_all(_orig("restrict_petrinet_to_subspace"), w_restrict_petrinet, "restrict_petrinet_to_subspace")
    patch_all(_orig("extract_source_variables"), w_extract_source_variables, "extract_source_variables")
    patch_all(_orig("cleanup_network"), w_cleanup_network, "cleanup_network")
    patch_all(_orig("feedback_vertex_set"), w_feedback_vertex_set, "feedback_vertex_set")
    patch_all(_orig("source_SCCs"), w_source_SCCs, "source_SCCs")
    patch_all(_orig("source_nodes"), w_source_nodes, "source_nodes")
    patch_all(_orig("compute_fixed_point_reduced_STG"), w_rfp, "compute_fixed_point_reduced_STG")
    patch_all(_orig("compute_attractors_symbolic"), w_compute_attractors_symbolic, "compute_attractors_symbolic")
    patch_all(_orig("symbolic_attractor_fallback"), w_symbolic_attractor_fallback, "symbolic_attractor_fallback")
    patch_all(ba.AsynchronousGraph, w_AsynchronousGraph, "AsynchronousGraph")
    patch_all(ba.BooleanNetwork, BNFacade, "BooleanNetwork")
    # (every oracle passes real / untracked arguments through, so the regions' internal calls stay real)
