#!/bin/sh
# offline bootstrap of the overlay venv: /venv's packages + /repo (working tree) + z3 + crosshair
set -e
cd "$(dirname "$0")"
if [ ! -x .venv/bin/python ]; then
  /venv/bin/python -m venv .venv
fi
printf "import site; site.addsitedir('/venv/lib/python3.12/site-packages')\n/repo\n" > .venv/lib/python3.12/site-packages/_overlay.pth
.venv/bin/python -c "import z3, crosshair" 2>/dev/null || \
  .venv/bin/pip install -q --no-index --find-links /opt/veriftools/wheels crosshair-tool z3-solver
.venv/bin/python -c "import z3, crosshair, biobalm, clingo, biodivine_aeon; print('setup ok', z3.get_version_string())"
