#!/bin/sh
# tools/run_all.sh <tier> [checks...] : run the registered commands one after the other, log per check (real exit codes)
T="${1:-quick}"; shift
L=/verif/scratch/run_$T.log; mkdir -p /verif/scratch; : > $L
for p in ${@:-C01 C02 C03 C04 C05 C06 C07 C08 C09 C10 C11 C12 C13 C14 C15 C16 C17 C18 C19 C20}; do
  s=$(date +%s)
  ./check $p --tier $T > /verif/scratch/run_one.out 2>&1; rc=$?
  grep -v domRec /verif/scratch/run_one.out | tail -4 | cut -c1-400 >> $L
  echo "$p exit=$rc took $(( $(date +%s) - s ))s" >> $L
done
rm -f /verif/scratch/run_one.out
echo finished >> $L
