#!/bin/sh
# tools/try_seed.sh <patch.diff> <check> [tier] : evaluate a seeded change WITHOUT touching /repo: a scratch
# worktree of /repo's HEAD gets the patch, the check runs against it (VERIF_REPO), the worktree is removed.
set -u
P="$1"; C="$2"; T="${3:-quick}"
W=/tmp/seedwt_$$
git -C /repo worktree add -q --detach "$W" HEAD || exit 2
( cd "$W" && git apply "$P" ) || { echo "patch does not apply"; git -C /repo worktree remove --force "$W"; exit 2; }
( cd /verif && VERIF_REPO="$W" ./check "$C" --tier "$T" 2>&1 | grep -v domRec | tail -6 )
git -C /repo worktree remove --force "$W"
