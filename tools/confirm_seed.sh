#!/bin/sh
# tools/confirm_seed.sh <id> : confirm a sub-agent's seeded change (in /tmp/wt_<id>, outputs in /tmp/seed_<id>)
ID="$1"; WT=/tmp/wt_$ID; OUT=/tmp/seed_$ID
cd $WT || exit 2
git diff > /tmp/seed_$ID/patch.check.diff
cmp -s /tmp/seed_$ID/patch.check.diff $OUT/patch.diff && echo "patch.diff matches worktree diff" || echo "NOTE: patch.diff differs from worktree diff"
echo "files: $(git diff --stat | tail -1)"
echo "--- demo WITH change (expect exit 1)"; (cd $WT && PYTHONPATH=$WT timeout 300 /venv/bin/python $OUT/demo.py >/tmp/seed_$ID/demo_with.log 2>&1; echo "exit=$?"); tail -3 /tmp/seed_$ID/demo_with.log | grep -v domRec
echo "--- demo WITHOUT change (clean /repo HEAD; expect exit 0)"; (cd /repo && PYTHONPATH=/repo timeout 300 /venv/bin/python $OUT/demo.py >/tmp/seed_$ID/demo_without.log 2>&1; echo "exit=$?"); tail -2 /tmp/seed_$ID/demo_without.log | grep -v domRec
echo "--- suite WITH change"; (cd $WT && /venv/bin/python -m pytest -q -p no:cacheprovider --timeout=900 2>&1 | tail -1)
