"""Discovery aid (NOT a registered check, decides nothing): random networks beyond the families' size bounds and random
parameter values are pushed through the checks' own *replay* functions (real code, explicit-state reference verdict).
A failure found here is a lead: it is then brought inside a solver-steered family / slice of the registered check, which
is what reports it.  usage: discover.py <minutes> [workers] [modules...]   -> scratch/discover.jsonl"""
import importlib
import json
import os
import random
import signal
import sys
import time
import multiprocessing as mp

ROOT = os.path.dirname(os.path.dirname(os.path.abspath(__file__)))
sys.path.insert(0, ROOT)
MODS = ["C01", "C03", "C04", "C05", "C08", "C12", "C14", "C16", "C20", "C06", "C07", "C13", "C15"]
NAMES = "abcdefgh"


def rand_net(rng):
    n = rng.choice((3, 4, 4, 5, 5, 6, 6, 7))
    names = list(NAMES[:n])
    lines = []
    for v in names:
        kind = rng.random()
        if kind < 0.08:
            lines.append(f"{v}, {v}")
            continue
        if kind < 0.12:
            lines.append(f"{v}, {rng.choice(('true', 'false'))}")
            continue
        k = rng.choice((1, 2, 2, 3, 3))
        ins = rng.sample(names, min(k, n))
        p = rng.choice((0.3, 0.5, 0.5, 0.7))
        rows = []
        import itertools
        for vals in itertools.product((0, 1), repeat=len(ins)):
            if rng.random() < p:
                rows.append("(" + " & ".join((nm if b else "!" + nm) for nm, b in zip(ins, vals)) + ")")
        lines.append(f"{v}, {' | '.join(rows) if rows else 'false'}")
    return "\n".join(lines) + "\n", n


def rand_hist(rng, n, depth=5):
    h = {}
    for k in range(depth):
        h[f"h{k}_node"] = rng.choice((-1, -1, 0, 0, 1, 2, 3, 4, 5, 6))
        for p in ("level", "size", "stack"):
            h[f"h{k}_{p}"] = rng.choice((-1, -1, -1, 0, 1, 2, 3, 5))
        for p in ("skip", "maa", "optsrc", "exact", "greedy", "sim", "all"):
            h[f"h{k}_{p}"] = rng.random() < 0.5
        ts = [rng.choice((-1, -1, 0, 1)) for _ in range(n)]
        if all(t < 0 for t in ts):
            ts[rng.randrange(n)] = rng.choice((0, 1))
        for i, t in enumerate(ts):
            h[f"h{k}_target{i}"] = t
    for c in ("cfg_thr", "cfg_lim", "cfg_sim", "cfg_nfvs", "cfg_motifs"):
        h[c] = rng.choice((-1, -1, -1, 0, 1, 2, 3))
    # control harness (C06/C07)
    ts = [rng.choice((-1, -1, 0, 1)) for _ in range(n)]
    if all(t < 0 for t in ts):
        ts[rng.randrange(n)] = rng.choice((0, 1))
    for i, t in enumerate(ts):
        h[f"tgt{i}"] = t
        h[f"forb{i}"] = rng.random() < 0.15
    h["maxd"] = rng.choice((-1, -1, 0, 1, 2, 3))
    h["strat_all"] = rng.random() < 0.5
    h["skipff"] = rng.random() < 0.5
    # C15 scenarios
    h["fault_at"] = rng.randint(1, 8)
    h["cfg_cands"] = rng.randint(0, 5)
    return h


class Timeout(BaseException):
    pass


def _alarm(*a):
    raise Timeout()


def worker(args):
    wid, minutes, mods = args
    try:
        fd = os.open(os.path.join(ROOT, "scratch", "worker_stderr.log"), os.O_WRONLY | os.O_CREAT | os.O_APPEND)
        os.dup2(fd, 2)
    except OSError:
        pass
    rng = random.Random(1000 + wid + int(os.environ.get("DISCOVER_SEED", "0")))
    signal.signal(signal.SIGALRM, _alarm)
    t_end = time.time() + 60 * minutes
    tasklists = {}
    for m in mods:      # import everything now: later edits of the checks must not mix versions inside one worker
        try:
            mod = importlib.import_module("checks." + m)
            tasklists[m] = [t for t in mod.tasks("thorough", 0) if t.get("params", {}).get("mode") is None]
        except Exception:
            tasklists[m] = []
    stats = {"runs": 0, "fail": 0, "err": 0, "timeout": 0}
    out = open(os.path.join(ROOT, "scratch", f"discover.{wid}.jsonl"), "a")
    while time.time() < t_end:
        m = rng.choice(mods)
        mod = importlib.import_module("checks." + m)
        if m not in tasklists:
            try:
                tasklists[m] = [t for t in mod.tasks("thorough", 0) if t.get("params", {}).get("mode") is None]
            except Exception:
                tasklists[m] = []
        if not tasklists[m]:
            continue
        t = rng.choice(tasklists[m])
        rules, n = rand_net(rng)
        params = dict(t["params"])
        params.pop("selftest", None)
        params["fine"] = False
        params["free_inputs"] = False
        hh = rand_hist(rng, n)
        if m == "C12":
            for k in range(1, 5):
                hh[f"h{k}_node"] = hh["h0_node"]
        if m == "C15":
            hh["cfg_motifs"] = abs(hh["cfg_motifs"])
            hh["cfg_thr"] = abs(hh["cfg_thr"])
        # identity variables presented as free inputs (no update function) half of the time
        for i, ln in enumerate(rules.splitlines()):
            nm, e = [x.strip() for x in ln.split(",", 1)]
            if e == nm and rng.random() < 0.5:
                hh[f"fi{i}"] = 1
                params["free_inputs"] = True
        rec = {"property": m, "rules": rules, "hist": hh, "params": params}
        stats["runs"] += 1
        signal.alarm(90)
        try:
            v = mod.replay(rec)
            signal.alarm(0)
            if v.get("reproduces"):
                stats["fail"] += 1
                out.write(json.dumps({"rec": rec, "failing": v.get("failing", [])[:4]}, default=str) + "\n")
                out.flush()
        except Timeout:
            stats["timeout"] += 1
            out.write(json.dumps({"rec": rec, "failing": ["TIMEOUT 90s"]}, default=str) + "\n")
            out.flush()
        except Exception as e:
            signal.alarm(0)
            stats["err"] += 1
            if stats["err"] < 20:
                import traceback
                out.write(json.dumps({"rec": rec, "error": repr(e), "trace": traceback.format_exc()[-600:]}, default=str) + "\n")
                out.flush()
    return stats


if __name__ == "__main__":
    minutes = float(sys.argv[1]) if len(sys.argv) > 1 else 5
    workers = int(sys.argv[2]) if len(sys.argv) > 2 else 4
    mods = sys.argv[3:] or MODS
    os.makedirs(os.path.join(ROOT, "scratch"), exist_ok=True)
    with mp.get_context("fork").Pool(workers) as pool:
        res = pool.map(worker, [(i, minutes, mods) for i in range(workers)])
    tot = {k: sum(r[k] for r in res) for k in res[0]}
    print("discover:", tot)
