#!/bin/sh
# tools/revert_check.sh [commit:check ...] : for every "fix:" commit of /repo, revert it in a scratch worktree and run the
# quick tier of the check that found the defect: the violation must come back (exit 1).  A "fixed:" entry in
# known_findings.txt suppresses nothing; this shows it.  Output: scratch/revert_check.log
L=/verif/scratch/revert_check.log; mkdir -p /verif/scratch; : > $L
PAIRS="${@:-6a6860d:C20 d932a21:C20 987ab54:C15 7323a77:C08 3f081f5:C08 5a24c97:C08 77ddc7e:C15 237fb3a:C14 c84c1d1:C13 be4d17f:C14 02151a0:C20 80436f0:C12 ec872b7:C16}"
for pc in $PAIRS; do
  c=${pc%%:*}; k=${pc##*:}; W=/tmp/revwt_$c
  git -C /repo worktree add -q --detach $W HEAD || { echo "$c $k worktree failed" >> $L; continue; }
  if ( cd $W && git revert --no-commit $c >/dev/null 2>&1 ); then
    ( cd /verif && VERIF_REPO=$W timeout 1800 ./check $k --tier quick 2>&1 | grep -v domRec | tail -3 | cut -c1-220 ) > /tmp/revout_$c.txt
    rc=$(grep -o "exit=[0-9]*" /tmp/revout_$c.txt | tail -1)
    echo "$c $k reverted -> $rc  $(grep -c VIOLATION /tmp/revout_$c.txt) VIOLATION lines; $(tail -1 /tmp/revout_$c.txt)" >> $L
    rm -f /tmp/revout_$c.txt
  else
    echo "$c $k revert does not apply cleanly (later fixes touch the same lines)" >> $L
  fi
  git -C /repo worktree remove --force $W
done
echo finished >> $L
