"""Regenerates MANIFEST.json from the table below (keeps it schema-valid).  python3 tools/mkmanifest.py"""
import json, os
ROOT = os.path.dirname(os.path.dirname(os.path.abspath(__file__)))
BASELINE = "cd /repo && /venv/bin/python -m pytest -ra -q -p no:cacheprovider --timeout=900 --continue-on-collection-errors"

CAB_NOTE = ("Trusted: z3 unsat answers; contract stubs for clingo / biodivine_aeon (DESIGN.md §8), each validated on every "
            "representative executed; path determinism of biobalm between observation points (default-deny proxies). "
            "Bounded: families of 2-4 variable networks named in the evidence; nothing is claimed outside them.")

CHECKS = {
    "C02": dict(engine="E-CAB", category="model_checking",
                text="Concolic execution of the real expand_bfs/expand_dfs over a symbolic truth table: z3 decides, for every path class, that the produced diagram equals the hierarchy of percolated trap spaces for all networks of the class; exhaustive for all 2-variable networks, time-boxed (quick) / exhaustive (thorough) for all 3-variable networks.",
                technique="concolic symbolic execution of the real Python with z3 (path classes + frontier exhaustion); counterexamples replayed on clean code",
                design_ref="§3.2, §6 C02"),
}

NA = {}
ALL = ["C%02d" % i for i in range(1, 21)]
for p in ALL:
    if p not in CHECKS:
        NA.setdefault(p, "check not built yet in this round (see DESIGN.md §12 implementation order); will be claimed once its quick command passes")

def main():
    checks = []
    for pid, c in sorted(CHECKS.items()):
        checks.append({
            "property_id": pid,
            "quick_cmd": f"./check {pid} --tier quick",
            "thorough_cmd": f"./check {pid} --tier thorough",
            "evidence_file": f"/verif/evidence/{pid}.json",
            "replay_cmd_template": "./check replay {path}",
            "engine": c["engine"],
            "level_claimed": {"category": c["category"], "text": c["text"], "design_ref": c.get("design_ref", "")},
            "level_note": c.get("note", CAB_NOTE),
            "technique": c["technique"],
        })
    m = {
        "version": 1,
        "setup_cmd": "sh ./setup.sh",
        "hooks": {"guard": "BIOBALM_VERIF", "enable": "no source hooks are needed: oracles/proxies are injected into the harness process (module attributes, sys.monitoring); the guard name is reserved",
                  "baseline_off_cmd": BASELINE, "source_commits": [], "add_only": True},
        "engines": [
            {"name": "E-CAB", "path": "engine/cab.py", "serves_properties": sorted(p for p, c in CHECKS.items() if c["engine"] == "E-CAB"),
             "kind_free_text": "concolic execution of the real biobalm Python over a symbolic Boolean network; z3 decides every path class and the exhaustion of the bound"},
            {"name": "E-LIFT", "path": "lift/", "serves_properties": sorted(p for p, c in CHECKS.items() if c["engine"] == "E-LIFT"),
             "kind_free_text": "the ASP programs / Petri-net surgery emitted by the real code on a generic net are lifted with presence Booleans; z3 proves equivalence with the definition for all networks and covers"},
            {"name": "E-CX", "path": "units/", "serves_properties": sorted(p for p, c in CHECKS.items() if c["engine"] == "E-CX"),
             "kind_free_text": "CrossHair symbolic execution of pure-Python units"},
            {"name": "E-TV", "path": "tv/", "serves_properties": sorted(p for p, c in CHECKS.items() if c["engine"] == "E-TV"),
             "kind_free_text": "per-model SMT validation of emitted artefacts over all states"},
        ],
        "checks": checks,
        "notes": "Exit codes: 0 held on everything explored, 1 VIOLATION (replayed on clean code), 3 INCONCLUSIVE (unmodelled API, unknown, non-reproducing counterexample). Solver-based checking only; see DESIGN.md.",
        "not_applicable": [{"property_id": p, "reason": r} for p, r in sorted(NA.items())],
    }
    json.dump(m, open(os.path.join(ROOT, "MANIFEST.json"), "w"), indent=1)
    print("checks:", [c["property_id"] for c in checks], "n/a:", sorted(NA))

if __name__ == "__main__":
    main()
