"""Regenerates MANIFEST.json from the table below (keeps it schema-valid).  python3 tools/mkmanifest.py"""
import json, os
ROOT = os.path.dirname(os.path.dirname(os.path.abspath(__file__)))
BASELINE = "cd /repo && /venv/bin/python -m pytest -ra -q -p no:cacheprovider --timeout=900 --continue-on-collection-errors"

CAB_NOTE = ("Trusted: z3 unsat answers; contract stubs for clingo / biodivine_aeon (DESIGN.md §8), each validated on every "
            "representative executed; path determinism of biobalm between observation points (default-deny proxies). "
            "Bounded: families of 2-4 variable networks named in the evidence; nothing is claimed outside them.")

T_CAB = "concolic symbolic execution of the real Python with z3 (path classes + frontier exhaustion); counterexamples replayed on clean code"
CHECKS = {
    "C01": dict(engine="E-CAB", category="model_checking", design_ref="§6 C01", technique=T_CAB + "; per-model SMT validation on the published models (z3 over all states: fixed-point attractors complete and sound, seed placement)",
                text="A complete strategy with default settings (build, block, bfs, dfs, source-SCC, attractor-seed), then seeds of every expanded node: z3 decides over the symbolic truth table (REACH by repeated squaring, ATTR = terminal SCC) that every seed lies in an attractor inside its node and outside the node's successors and that every attractor has exactly one seed. Published models (5-321 variables; checks/c18_models.py): after build / attractor-seed / block / source-SCC / BFS expansion z3 decides over all states that the reported fixed-point attractors are exactly the fixed points of the model; every minimal trap space carries a seed, seeds lie in their node and outside its successors. Open finding F-C01-scc-nested (expand_scc reports a motif-avoidant attractor twice) is listed in known_findings.txt."),
    "C05": dict(engine="E-CAB", category="model_checking", design_ref="§6 C05", technique=T_CAB + "; per-model SMT validation on the published models (z3 over all states: fixed-point attractors complete and sound, seed placement)",
                text="A limited strategy with symbolic limits, completion by skip_remaining / skip_to_minimal on every stub / minimal-space expansion with skip_ignored, then seeds of every node: every seed in an attractor inside its node, every attractor at least once, exactly once if the network has no motif-avoidant attractor (SymNet predicate). Published models (checks/c18_models.py): bfs(3)+skip_remaining, dfs(4)+skip_to_minimal everywhere, expand_minimal_spaces(skip_ignored=True), seeds on every node: every fixed point of the model (z3 over all states) is some node's seed, every minimal trap space contains a seed, no seed lies inside a successor of its node."),
    "C09": dict(engine="E-LIFT", category="translation_validation", design_ref="§3.1, §6 C09", technique="SMT (z3) equivalence of the ASP program emitted by the real code, lifted over a generic Petri net, with the trap-space definition for all networks and covers" + "; per-model SMT validation on the published models (z3 over all states / all subspaces of the validated Petri net)",
                note="Trusted: z3; clingo's enumeration contract (subset-minimal/maximal models under domRec), validated on every representative of every E-CAB run; locality of rule emission (checked on random sub-nets each run). Bounded: n <= 4 variables.",
                text="The real _create_clingo_constraints / fixed-point constraints / reduced-STG net surgery / model converters run on the generic net G_n; per-shape, per-avoid, per-source, per-ensure and per-retained rule sets are lifted with selector Booleans and z3 proves that the classical models of the emitted program are exactly the spaces of the definition, for all networks, covers, avoid lists, source lists and retained sets with n <= 3 (quick: + n=4 slice; thorough: n=4 full). API harness (checks/c09_api.py): the real trappist() / compute_fixed_point_reduced_STG() on symbolic networks with symbolic problem, ensure, up to two avoided spaces, sources, limit and time direction. Published models (checks/c09_models.py): per call of the real trappist(min|max|fix, ensure, avoid, reverse_time) z3 decides over all subspaces of the validated Petri net that the answers are exactly the requested trap spaces."),
    "C10": dict(engine="E-TV", category="translation_validation", design_ref="§3.4, §6 C10", technique="per-artefact SMT validation (z3 over all states) of the real code's Petri nets / restricted nets / percolated networks; restriction lifted over the generic net",
                note="Trusted: z3; the independent 60-line expression parser; AEON's bnet parser reading the same text. (a),(c) are per model (215 repository models, all functions of <= 3 inputs); (b) is for all nets over G_n, n <= 3 (4 in thorough).",
                text="(a) every update function of the repository models and every function of <= 3 inputs: z3 decides over all states that the emitted implicants equal f&!x / !f&x; (b) restrict_petrinet_to_subspace lifted over the generic net: all nets, subspaces and states; (c) percolate_network per model and node space: remaining variables and functions agree with the original on every state of the space."),
    "C02": dict(engine="E-CAB", category="model_checking", design_ref="§3.2, §6 C02", technique=T_CAB + "; per-model SMT validation on the published models (z3 over all states / all subspaces of the validated Petri net)",
                text="Concolic execution of the real expand_bfs/expand_dfs over a symbolic truth table: z3 decides, for every path class, that the produced diagram equals the hierarchy of percolated trap spaces for all networks of the class; exhaustive for all 2-variable networks, time-boxed (quick) / exhaustive (thorough) for all 3-variable networks. Published models (checks/c02_models.py): for the root and the deepest expanded nodes of size-limited BFS/DFS runs z3 decides closure under percolation (least fixed point over all states) and that the listed stable motifs are trap spaces, maximal, percolate to their child, none missing (all subspaces of the validated Petri net). Also with a symbolic max_motifs_per_node (limit error or exact diagram)."),
    "C03": dict(engine="E-CAB", category="model_checking", design_ref="§3.2, §6 C03", technique=T_CAB + "; per-model SMT validation on the published models (z3 over all subspaces of the validated Petri net: reported minimal trap spaces closed, minimal, none missing)",
                text="Published models (5-321 variables): for every complete strategy run z3 decides exactly-the-minimal-trap-spaces over all subspaces (checks/models_tv.py). Small symbolic networks: Every completing strategy (bfs, dfs, minimal-space +-skip, attractor-seed, block with all flag combinations, source-SCC) and limited strategies completed by skipping, optionally after a plain prefix call with symbolic limits: z3 decides per path class that the expanded leaves are exactly the inclusion-minimal trap spaces. U2 exhaustive for single strategies; D3/B21 (quick) and U3/B22/CH4/S2C2 (thorough) time-boxed."),
    "C04": dict(engine="E-CAB", category="model_checking", design_ref="§3.2, §6 C04", technique=T_CAB + "; per-model SMT validation on the published models (z3 over all states / all subspaces of the validated Petri net); space_unique_key translated from its source (AST) into z3 bit-vectors and decided injective for N up to 40/96 variables",
                text="Histories of plain expansion calls with symbolic start nodes, limits and targets; after every call the partial-diagram invariant is decided for the whole path class, and the continued full expansion is decided against the C02 hierarchy and compared with a fresh diagram. Published models (checks/c02_models.py): four canned histories of plain calls with limits and start nodes; afterwards every expanded node is decided as in C02, no space occurs twice, unexpanded nodes have no successors. Key unit (checks/c04_key_unit.py): the node key function is decided injective and item-order independent over all spaces of N-variable networks (N=8,31,40 quick; up to 96 thorough)."),
    "C06": dict(engine="E-CAB", category="model_checking", design_ref="§6 C06", technique=T_CAB + "; per-model SMT validation on the published models (z3: motif chain over the validated Petri net, override LDOI as least fixed point over all states, minimal trap spaces inside the final space enumerated by SAT)",
                text="Real succession_control over a symbolic network with symbolic target, strategy, driver bound, forbidden set and skip_feedforward flag, on fresh and pre-expanded/skipped/block-expanded diagrams: for every intervention flagged successful z3 decides nesting of the trap spaces, LDOI containment of the motif, and - over the overridden network's REACH/ATTR - that every attractor reachable from the previous trap space carries the motif; the final space's minimal trap spaces lie in the target. Published models (checks/c06_models.py): successful interventions towards minimal trap spaces: motif chain closed and nested (validated Petri net), every override's domain of influence contains the motif (z3 least fixed point over all states), all minimal trap spaces inside the final space (enumerated by SAT) lie in the target; the attractor-reachability clause is decided only on the symbolic families."),
    "C07": dict(engine="E-CAB", category="model_checking", design_ref="§6 C07", technique=T_CAB,
                text="On a fresh diagram: the diagram after control is a faithful partial diagram expanded exactly where the target requires; every root path x motif choice is listed iff it ends in an outermost node all of whose minimal trap spaces lie in the target; per step the reported overrides are exactly the inclusion-minimal allowed variable sets within the bound that force the motif (decided with the symbolic percolation definition); success flag and successful_only filter are exact."),
    "C08": dict(engine="E-CAB", category="model_checking", design_ref="§3.2, §6 C08", technique=T_CAB,
                text="Real compute_attractor_candidates (incl. greedy ASP optimisation, simulation minification, retained-set regeneration) on a symbolic node of a prefix history with the two option flags and the four numeric configuration fields as solver variables; z3 decides coverage of every attractor via REACH/ATTR over the symbolic truth table."),
    "C11": dict(engine="E-CAB", category="model_checking", design_ref="§6 C11", technique=T_CAB + " (fine mode: update-function handles carry a symbolic denotation)" + "; per-model SMT validation on the published models (z3 over all states / all subspaces of the validated Petri net)",
                text="Real percolate_space on a symbolic subspace (AEON's answer is an observation against the least-fixed-point definition; idempotence and trap-space preservation decided per class) and the real hand-written percolate_space_strict / function_eval / find_single_node_LDOIs / find_single_drivers executed on BDD handles whose is_true/is_false/r_restrict are observations over the symbolic truth table. Published models (checks/c11_models.py): percolate_space / percolate_space_strict / the single-node LDOI table equal the least fixed point of value propagation, every constant-test a z3 verdict over all states of the current space."),
    "C12": dict(engine="E-CAB", category="model_checking", design_ref="§6 C12", technique=T_CAB + " (coarse: set contents are per-representative observations against REACH)",
                text="Real node_attractor_sets / node_attractor_seeds(symbolic_fallback=True) on a symbolic node of a prefix history (sets before/after seeds and candidates, after reclaim, skip nodes): every returned VertexSet is enumerated and observed against the forward closure of its seed over the symbolic truth table; z3 decides per class that closure = attractor, in seed order, over all variables; the fallback's attractor family equals the default method's on a twin diagram. The inside of symbolic_attractor_test is validated per representative, not class-generalised."),
    "C13": dict(engine="E-CAB", category="model_checking", design_ref="§6 C13", technique=T_CAB + "; work budget watchdog per class",
                text="Every public operation is executed on the representative of every path class under a generous wall budget; a representative that exceeds it is replayed with a time-out. Coarse mode: inside the opaque attractor region termination is per representative."),
    "C14": dict(engine="E-CAB", category="model_checking", design_ref="§6 C14", technique=T_CAB,
                text="Attractor queries on unexpanded nodes interleaved with every operation that gives a node successors; after every call the cached candidates/seeds of every node are decided against the definition relative to the node's current successors."),
    "C15": dict(engine="E-CAB", category="model_checking", design_ref="§6 C15", technique=T_CAB,
                text="Symbolic size/level/stack limits, symbolic configuration limits and a symbolic fault position (k-th ASP solver call raises): after the interrupted call the partial-diagram invariant is decided per class, nothing is cached after an error, and the resumed call equals an uninterrupted twin."),
    "C16": dict(engine="E-CAB", category="model_checking", design_ref="§6 C16", technique=T_CAB + " (relational: twin diagram in the same run)",
                text="A history with pickle round-trip / reclaim_node_data inserted is run next to a twin without it under the same symbolic parameters; every later observable must coincide. The solver supplies the network and parameter coverage (compared values are class-constant)."),
    "C17": dict(engine="E-CAB", category="model_checking", design_ref="§6 C17", technique=T_CAB + " (relational; presentations interpreted over permuted/negated views of the same symbolic bits)",
                text="Each class representative is re-written (CNF, nested ITE, aeon, sbml, renamed + re-ordered, variables negated) and the real code runs on every presentation, each interpreted over a view of the same symbolic truth table, so both runs are covered by the class; diagrams are compared after mapping spaces back, attractors through REACH. sanitize_network_names runs on solver-chosen symbolic name tuples with validity/identity-pattern generalisation."),
    "C18": dict(engine="E-CAB", category="model_checking", design_ref="§6 C18", technique=T_CAB + " (product networks composed from component atoms; input-fixed views); per-model SMT validation (z3 over all states) of the reported trap spaces and fixed points on the published models",
                text="(1) symbolic product networks A x B: the real code on the union and on each part; minimal trap spaces and attractors of the union are exactly the pairwise products (decided via composed REACH). (2) networks with source variables: for every valuation the diagram of the network with inputs replaced by constants (a view sharing the bits) is isomorphic to the part of the free-input diagram below that valuation's node, with the same attractors. (3) third sentence, the part a solver can decide: on every published model of the repository (5-321 variables) z3 decides over all states that each reported minimal trap space is closed, that the reported fixed-point attractors are fixed points and that NO other fixed point exists, and that seeds lie in their spaces, one per minimal trap space; the uniqueness of complex attractors inside a minimal trap space and the absence of motif-avoidant attractors on those large models are not claimed (no bounded encoding of reachability on 2^321 states)."),
    "C19": dict(engine="E-CAB", category="model_checking", design_ref="§6 C19", technique=T_CAB + "; cross-interpreter comparison per representative",
                text="Every path-class representative is built twice in the harness process (with an unrelated diagram in between) and again in fresh interpreters with other PYTHONHASHSEEDs; ids, spaces, edges, motifs, depths, seeds and interventions must be identical. In-process equality is class-constant; the hash-seed dimension is sampled and stated as such."),
    "C20": dict(engine="E-CAB", category="model_checking", design_ref="§6 C20", technique=T_CAB,
                text="After every call of a symbolic history: depth = longest root path, ids contiguous, find_node exact for all 3^n spaces, is_subgraph/is_isomorphic = set inclusion/equality against a fresh full diagram; after build() the parsed summary lists every attractor of every network of the class exactly once with the right label."),
}

NA = {}
ALL = ["C%02d" % i for i in range(1, 21)]
for p in ALL:
    if p not in CHECKS:
        NA.setdefault(p, "check not built yet in this round (see DESIGN.md §12 implementation order); will be claimed once its quick command passes")

def main():
    checks = []
    for pid, c in sorted(CHECKS.items()):
        checks.append({
            "property_id": pid,
            "quick_cmd": f"./check {pid} --tier quick",
            "thorough_cmd": f"./check {pid} --tier thorough",
            "evidence_file": f"/verif/evidence/{pid}.json",
            "replay_cmd_template": "./check replay {path}",
            "engine": c["engine"],
            "level_claimed": {"category": c["category"], "text": c["text"], "design_ref": c.get("design_ref", "")},
            "level_note": c.get("note", CAB_NOTE),
            "technique": c["technique"],
        })
    m = {
        "version": 1,
        "setup_cmd": "sh ./setup.sh",
        "hooks": {"guard": "BIOBALM_VERIF", "enable": "no source hooks are needed: oracles/proxies are injected into the harness process (module attributes, sys.monitoring); the guard name is reserved",
                  "baseline_off_cmd": BASELINE, "source_commits": [], "add_only": True},
        "engines": [
            {"name": "E-CAB", "path": "engine/cab.py", "serves_properties": sorted(p for p, c in CHECKS.items() if c["engine"] == "E-CAB"),
             "kind_free_text": "concolic execution of the real biobalm Python over a symbolic Boolean network; z3 decides every path class and the exhaustion of the bound"},
            {"name": "E-LIFT", "path": "lift/", "serves_properties": sorted(p for p, c in CHECKS.items() if c["engine"] == "E-LIFT"),
             "kind_free_text": "the ASP programs / Petri-net surgery emitted by the real code on a generic net are lifted with presence Booleans; z3 proves equivalence with the definition for all networks and covers"},
            {"name": "E-CX", "path": "units/", "serves_properties": sorted(p for p, c in CHECKS.items() if c["engine"] == "E-CX"),
             "kind_free_text": "CrossHair symbolic execution of pure-Python units"},
            {"name": "E-TV", "path": "tv/", "serves_properties": sorted(p for p, c in CHECKS.items() if c["engine"] == "E-TV"),
             "kind_free_text": "per-model SMT validation of emitted artefacts over all states"},
        ],
        "checks": checks,
        "notes": "Exit codes: 0 held on everything explored, 1 VIOLATION (replayed on clean code), 3 INCONCLUSIVE (unmodelled API, unknown, non-reproducing counterexample). Solver-based checking only; see DESIGN.md.",
        "not_applicable": [{"property_id": p, "reason": r} for p, r in sorted(NA.items())],
    }
    json.dump(m, open(os.path.join(ROOT, "MANIFEST.json"), "w"), indent=1)
    print("checks:", [c["property_id"] for c in checks], "n/a:", sorted(NA))

if __name__ == "__main__":
    main()
